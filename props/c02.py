"""C02 — factorisation is a faithful partition of the rows.

P/L (unbounded, maintained in contracts/): _weight_code_sum, _combine_factorizations (+ L-radix), the counting-sort indexer.
B (bounded, this file): the class invariant of GroupBy after construction, stated on the public views, per factorisation route
   INV(codes, labels, keys):  every row has one integer code; non-null key -> 0 <= code < ngroups and labels[code] == key (tuple for several keys);
                              code[r] == code[r'] <=> key[r] == key[r'];  code == -1 <=> the key or any component is null;  labels pairwise distinct
   derived views:             groups[label] == ascending positions of the rows with that key; the lists partition the non-null-key rows;
                              key_count / ikey_count == rows per label and add up to the number of non-null-key rows; ngroups == len(labels); len(gb) == rows
   chunk-local codes:         logical code == pointer[chunk code] (null stays null); the invariant is re-read after `groups` (which unifies the chunks in place)
                              and after _unify_group_key_chunks() on a separate instance
 + the same INV as a postcondition directly on factorize_1d / factorize_2d (sort on/off, parallel on/off, dict tracker) and, restricted to the
   monotone prefix [0, cutoff), on monotonic_factorization
 + sidecar monitors on the kernels the P tier proves (their `requires` and the part of their `ensures` INV rests on):
   _monotonic_factorization, _combine_factorizations, GroupBy._build_group_sorted_indexer_numba.
Oracle: the key sequence the case was built from (pure Python lists); nothing is taken from pandas.
"""
import itertools, io, contextlib
import numpy as np, pandas as pd
from . import common as C

PROP = "C02"; LEVEL = "other"; P_TIER = True
SCOPE = {"quick": "key sequences over {null,a,b,c} ({a,b,c} for never-null dtypes, {F,T} for bool). GroupBy invariant: 21 single-key containers (numpy float/str/int/bool/datetime/float32, Categorical and categorical Series "
                  "with unused categories, Series float (non-default row labels)/str/Int64, Index, pyarrow float/str/int/dictionary (also chunked, with one shared or per-chunk dictionaries), pandas ArrowDtype, polars float/str/int/categorical) x every sequence n<=3 (n<=4 numpy float/str) "
                  "x sort on/off; RangeIndex start {0,3,-4} x step {1,2,3,-1,-2} x n<=4; 2 keys (8 container pairs, every sequence of key pairs over {null,a,b}^2, n<=3 for 4 pairs, n<=2 for 4) and 3 keys (4 triples, n<=2, "
                  "plus n=3 with the first row fixed for 2 triples) with a null in each position; chunk-wise route by THRESHOLD_FOR_CHUNKED_FACTORIZE=1 on numpy float (n<=5) / int, datetime, Series float (n<=4) / "
                  "str, bool, Series str, pyarrow, polars (n<=3) and RangeIndex, plus float keys [b,a]+t and [a,b,c,a]+t for every t over {null,a,b,c}^4 (a chunk then holds a null next to a non-null key, with and without a "
                  "monotone piece in front); pa.chunked_array keys in every split of the rows into <=3 chunks incl. empty chunks (float with nulls n<=3, null-free float n<=4, int n<=3, str n<=2); chunk-local codes are read "
                  "through the pointer tables, re-read after `groups`, and after _unify_group_key_chunks() on a separate instance. factorize_1d: all containers n<=3 x sort on/off, arrow chunkings, RangeIndex; "
                  "factorize_2d: 4 pairs n<=3 and 2 triples x sort x {parallel, serial, dict tracker}; monotonic_factorization: 9 containers n<=4, arrow chunkings n<=3, RangeIndex; seeded random cases up to 12 rows",
         "thorough": "as quick with one more row in every stream (chunked arrow float n<=5), random cases up to 40 rows, and 6 designed 1_000_000-row keys through the real threshold (tiled with/without NaN, sorted prefix + tail, fully sorted with 142858 labels, int, datetime with NaT)"}
RULE = "a case = (depth gb|f1|f2|mono, container kind(s), key sequence, sort, route plain|thr|chunks, flags); distinct = distinct canonical JSON; non-trivial = at least two distinct non-null keys, or a null key, or a chunked route"
ASSUMPTIONS = ["pd.factorize / pyarrow dictionary_encode / Index.get_indexer / drop_duplicates are external; their results are checked against the key sequence in scope, not trusted",
               "label equality is Python == on the label read back from result_index (np.float32 keys compared after the same rounding)",
               "a NaN stored as a *value* inside a pyarrow/polars float array (as opposed to an Arrow null) is not enumerated: the statement does not say whether it is a null key",
               "BOUNDED: the pandas/arrow glue (factorize_1d dispatch, factorize_2d assembly, _factorize_group_key_in_chunks, _unify_group_key_chunks, groups, key_count) is checked only within the stated scope"]
REQUIRED_CONTRACTS = {"factorization._combine_factorizations": 1, "factorization._monotonic_factorization": 1, "core.GroupBy._build_group_sorted_indexer_numba": 1}
EXPLANATION = ("Modular: the mixed-radix combination of per-key codes with -1 propagation and the counting sort behind `groups` are kernel contracts (P tier); the dispatch per container, the MultiIndex assembly, "
               "the chunk-wise factorisation with pointer tables and the derived views are pandas/arrow glue and are decided by the class invariant of GroupBy evaluated at run time on the real objects "
               "over a bounded-exhaustive space of key sequences, containers, chunkings and routes (bounded, not proved).")
BUDGET = {"quick": 60, "thorough": 500}

CATS = ["c", "a", "b", "unused"]
T0 = pd.Timestamp("2020-01-01")
NULLABLE = {"np_float", "np_str", "np_dt", "np_f32", "cat", "cat_series", "pd_float", "pd_str", "pd_index", "pd_Int64", "pa_float", "pa_str", "pa_int", "pa_dict", "pa_dict_own", "pda_float",
            "pl_float", "pl_str", "pl_int", "pl_cat"}
SINGLE_KINDS = ["np_float", "np_str", "np_int", "np_bool", "np_dt", "np_f32", "cat", "cat_series", "pd_float", "pd_str", "pd_index", "pd_Int64",
                "pa_float", "pa_str", "pa_int", "pa_dict", "pda_float", "pl_float", "pl_str", "pl_int", "pl_cat"]
THR_KINDS = ["np_float", "np_int", "np_str", "np_dt", "np_bool", "pd_float", "pd_str", "pa_float", "pl_float", "pl_int"]
MONO_KINDS = ["np_float", "np_int", "np_dt", "np_bool", "pd_float", "pd_index", "pa_float", "pa_int", "pl_float"]
BASE = {"np_float": "float", "np_f32": "f32", "np_str": "str", "np_int": "int", "np_bool": "bool", "np_dt": "dt", "cat": "cat", "cat_series": "cat", "pd_float": "float", "pd_str": "str",
        "pd_index": "float", "pd_Int64": "int", "pa_float": "float", "pa_str": "str", "pa_int": "int", "pa_dict": "str", "pa_dict_own": "str", "pda_float": "float", "pl_float": "float", "pl_str": "str",
        "pl_int": "int", "pl_cat": "str"}


def alphabet(kind):
    if kind == "np_bool": return [0, 1]
    return [None, 0, 1, 2] if kind in NULLABLE else [0, 1, 2]


def logical_value(base, x):
    if x is None: return None
    if base == "float": return float(x) + 0.5
    if base == "f32": return float(np.float32(x + 0.1))
    if base == "str" or base == "cat": return "abc"[x]
    if base == "int": return x + 5
    if base == "bool": return bool(x)
    if base == "dt": return T0 + pd.Timedelta(days=x, nanoseconds=x)
    raise ValueError(base)


def make_key(kind, keys, chunks=None, name=None):
    """-> (object handed to the library, list of logical keys with None for a null key)"""
    import pyarrow as pa, polars as pl
    base = BASE[kind]; labs = [logical_value(base, x) for x in keys]; n = len(keys)
    fl = [np.nan if v is None else v for v in labs]
    if kind == "np_float": obj = np.array(fl, dtype=np.float64)
    elif kind == "np_f32": obj = np.array(fl, dtype=np.float32)
    elif kind == "np_str": obj = np.array(labs, dtype=object)
    elif kind == "np_int": obj = np.array(labs, dtype=np.int64)
    elif kind == "np_bool": obj = np.array(labs, dtype=bool)
    elif kind == "np_dt": obj = np.array([np.datetime64("NaT") if v is None else np.datetime64(v.value, "ns") for v in labs], dtype="M8[ns]")
    elif kind == "cat": obj = pd.Categorical(labs, categories=CATS)
    elif kind == "cat_series": obj = pd.Series(pd.Categorical(labs, categories=CATS), name=name or "ck")
    elif kind == "pd_float": obj = pd.Series(fl, dtype=np.float64, index=pd.Index(range(10, 10 + n)), name=name or "fk")        # non-default row labels: `groups` must list positions
    elif kind == "pd_str": obj = pd.Series(labs, dtype="str", name=name or "sk")
    elif kind == "pd_index": obj = pd.Index(fl, dtype=np.float64, name=name or "ik")
    elif kind == "pd_Int64": obj = pd.Series(pd.array(labs, dtype="Int64"), name=name)
    elif kind == "pa_float": obj = pa.array(labs, type=pa.float64())
    elif kind == "pa_str": obj = pa.array(labs, type=pa.string())
    elif kind == "pa_int": obj = pa.array(labs, type=pa.int64())
    elif kind in ("pa_dict", "pa_dict_own"): obj = pa.DictionaryArray.from_arrays(pa.array([None if v is None else "cab".index(v) for v in labs], type=pa.int32()), pa.array(["c", "a", "b", "unused"]))
    elif kind == "pda_float": obj = pd.Series(pd.array(labs, dtype=pd.ArrowDtype(pa.float64())), name=name)
    elif kind == "pl_float": obj = pl.Series(name or "", labs, dtype=pl.Float64)
    elif kind == "pl_str": obj = pl.Series(name or "", labs, dtype=pl.String)
    elif kind == "pl_int": obj = pl.Series(name or "", labs, dtype=pl.Int64)
    elif kind == "pl_cat": obj = pl.Series(name or "", labs, dtype=pl.Categorical)
    else: raise ValueError(kind)
    if chunks is not None and kind == "pa_dict_own":
        # a dictionary-typed column read batch by batch: every chunk is a DictionaryArray with ITS OWN dictionary (the chunk's labels in first-appearance order, then an unused entry)
        b = np.cumsum([0] + list(chunks)); parts = []
        for i in range(len(chunks)):
            part = labs[int(b[i]):int(b[i + 1])]; dic = list(dict.fromkeys(v for v in part if v is not None)) + ["unused"]
            parts.append(pa.DictionaryArray.from_arrays(pa.array([None if v is None else dic.index(v) for v in part], type=pa.int32()), pa.array(dic, type=pa.string())))
        return pa.chunked_array(parts, type=pa.dictionary(pa.int32(), pa.string())), labs
    if chunks is not None:
        if not isinstance(obj, (pa.Array,)): raise ValueError("chunking is defined for pyarrow kinds")
        b = np.cumsum([0] + list(chunks)); obj = pa.chunked_array([obj.slice(int(b[i]), int(b[i + 1] - b[i])) for i in range(len(chunks))], type=obj.type)
    return obj, labs


def chunkings(n, max_parts=3):
    """every way to cut n rows into 1..max_parts consecutive chunks, empty chunks allowed"""
    out = []
    for parts in range(1, max_parts + 1):
        for cuts in itertools.combinations_with_replacement(range(0, n + 1), parts - 1):
            b = [0] + list(cuts) + [n]; out.append([b[i + 1] - b[i] for i in range(parts)])
    return out


# ----------------------------------------------------------------------------- reading the views
def _plain(x):
    if isinstance(x, tuple): return tuple(_plain(v) for v in x)
    if C.is_null(x): return None
    if isinstance(x, (np.bool_, bool)): return bool(x)
    if isinstance(x, np.generic): return x.item()
    return x


def key_eq(label, key):
    if isinstance(key, tuple):
        return isinstance(label, tuple) and len(label) == len(key) and all(key_eq(a, b) for a, b in zip(label, key))
    if label is None or key is None: return False
    if isinstance(key, pd.Timestamp):
        try: return pd.Timestamp(label) == key
        except Exception: return False
    if isinstance(key, bool) != isinstance(label, bool): return False
    try: return bool(label == key)
    except Exception: return False


def is_null_key(key): return key is None or (isinstance(key, tuple) and any(k is None for k in key))


def code_list(arr):
    """codes as Python numbers: ints where they are integral, the raw float (e.g. nan) otherwise"""
    out = []
    for c in np.asarray(arr).tolist():
        if isinstance(c, float): out.append(int(c) if c == c and c == int(c) else c)
        elif c is None: out.append(float("nan"))
        else: out.append(int(c))
    return out


def logical_codes(gb):
    """codes per row without touching the object's state: pointer[chunk-local code] for chunk-local codes"""
    import pyarrow as pa
    ik = gb.group_ikey
    if isinstance(ik, pa.ChunkedArray):
        chunks = [code_list(c.to_numpy(zero_copy_only=False)) for c in ik.chunks]; ptrs = gb._group_key_pointers
        if ptrs is None: return [c for ch in chunks for c in ch], None
        if len(ptrs) != len(chunks): return None, f"{len(ptrs)} pointer tables for {len(chunks)} code chunks"
        out = []
        for p, ch in zip(ptrs, chunks):
            p = np.asarray(p)
            for c in ch:
                if isinstance(c, int) and c < 0: out.append(-1)
                elif isinstance(c, int) and c < len(p): out.append(int(p[c]))
                else: return None, f"chunk-local code {c} outside its pointer table of length {len(p)}"
        return out, None
    return code_list(ik), None


def inv_violations(codes, labels, keys):
    """the partition invariant on plain lists -> [(clause, detail)]"""
    out = []; n = len(keys); labels = [_plain(l) for l in labels]
    if len(codes) != n: return [("every row has exactly one code: len(codes) == number of rows", {"got": len(codes), "expected": n})]
    bad_null = [(r, codes[r]) for r in range(n) if is_null_key(keys[r]) != (codes[r] == -1 and isinstance(codes[r], int))]
    if bad_null: out.append(("a row has the null code -1 exactly when its key or any component of it is null", {"rows(pos, code)": str(bad_null[:4]), "codes": str(codes), "keys": str(keys)}))
    bad_lab = []
    for r in range(n):
        if is_null_key(keys[r]): continue
        c = codes[r]
        if not isinstance(c, int) or not (0 <= c < len(labels)) or not key_eq(labels[c], keys[r]):
            if not (isinstance(c, int) and c == -1): bad_lab.append((r, c, labels[c] if isinstance(c, int) and 0 <= c < len(labels) else None))
    if bad_lab: out.append(("the label at a row's code equals the row's key", {"rows(pos, code, label)": str(bad_lab[:4]), "codes": str(codes), "labels": str(labels), "keys": str(keys)}))
    nn = [r for r in range(n) if not is_null_key(keys[r]) and codes[r] != -1]
    bad_eq = [(r, s) for r in nn for s in nn if r < s and (codes[r] == codes[s]) != (keys[r] == keys[s])]
    if bad_eq: out.append(("two rows share a code exactly when their keys are equal", {"row pairs": str(bad_eq[:4]), "codes": str(codes), "keys": str(keys)}))
    seen = {}
    for i, l in enumerate(labels):
        h = repr(l)
        if h in seen: out.append(("labels are pairwise distinct", {"positions": (seen[h], i), "labels": str(labels)})); break
        seen[h] = i
    return out


def groups_violations(groups, labels, keys):
    out = []; n = len(keys)
    exp = {}
    for r, k in enumerate(keys):
        if not is_null_key(k): exp.setdefault(_plain(k), []).append(r)           # dict lookup is by ==/hash: a label 5.0 matches a key 5
    got = {}
    for lab, pos in groups.items():
        got.setdefault(_plain(lab), []).extend(int(p) for p in np.asarray(pos).tolist())
    shown = {"got": str(got), "expected": str(exp)}
    if any(got.get(k, []) != rows for k, rows in exp.items()) or any(k not in exp and len(pos) for k, pos in got.items()):
        out.append(("groups[label] lists exactly the ascending positions of the rows with that key", shown))
    allpos = sorted(p for pos in got.values() for p in pos); nonnull = [r for r in range(n) if not is_null_key(keys[r])]
    if allpos != nonnull: out.append(("the group lists partition the non-null-key rows (disjoint, jointly all of them)", dict(shown, listed=str(allpos), non_null_rows=str(nonnull))))
    return out


def sizes_violations(key_count, ikey_count, ngroups, length, labels, keys):
    out = []; labels = [_plain(l) for l in labels]; n = len(keys)
    nonnull = [k for k in keys if not is_null_key(k)]
    ik = [int(x) for x in np.asarray(ikey_count).tolist()]; kc = [int(x) for x in np.asarray(key_count).tolist()]
    exp = [sum(1 for k in nonnull if key_eq(l, k)) for l in labels]
    if ngroups != len(labels): out.append(("ngroups == number of labels", {"got": ngroups, "expected": len(labels)}))
    if length != n: out.append(("len(GroupBy) == number of rows", {"got": length, "expected": n}))
    if ik != exp or kc != exp: out.append(("per-group sizes (key_count, ikey_count) equal the number of rows with that label", {"ikey_count": str(ik), "key_count": str(kc), "expected": str(exp), "labels": str(labels)}))
    if sum(ik) != len(nonnull): out.append(("the per-group sizes add up to the number of non-null-key rows", {"got": sum(ik), "expected": len(nonnull)}))
    try:
        kl = [_plain(l) for l in key_count.index]
        if [repr(l) for l in kl] != [repr(l) for l in labels]: out.append(("key_count is indexed by the labels, position == code", {"got": str(kl), "expected": str(labels)}))
    except Exception: pass
    return out


# ----------------------------------------------------------------------------- cases
def _seqs(alpha, lo, hi):
    for n in range(lo, hi + 1):
        for keys in itertools.product(alpha, repeat=n): yield list(keys)


def _gb_single(kinds, N, route, lo=0):
    def gen(kind):
        for keys in _seqs(alphabet(kind), lo, N(kind)):
            for sort in (True, False):
                yield {"depth": "gb", "kind": kind, "keys": keys, "sort": sort, "route": route}
    return C.roundrobin(*[gen(k) for k in kinds])


def _gb_thr_tail(big):
    """chunk-wise route with enough rows for a chunk that holds a null key next to a non-null one (4 chunks are cut from the non-monotone rest):
    head [b, a] breaks monotonicity at once (no monotone piece); head [a, b, c, a] keeps a monotone piece in front of the chunks"""
    for k in ((4, 5) if big else (4,)):
        for head in ([1, 0], [0, 1, 2, 0]):
            for tail in itertools.product([None, 0, 1, 2], repeat=k):
                for sort in (True, False):
                    yield {"depth": "gb", "kind": "np_float", "keys": head + list(tail), "sort": sort, "route": "thr"}


def _gb_range(big):
    for n in range(0, (6 if big else 5)):
        for start in (0, 3, -4):
            for step in (1, 2, 3, -1, -2):
                for route in ("plain", "thr"):
                    for sort in (True, False):
                        yield {"depth": "gb", "kind": "range", "start": start, "step": step, "n": n, "sort": sort, "route": route}


MULTI2 = [["np_float", "np_str"], ["np_str", "np_float"], ["cat", "np_float"], ["np_float", "cat"], ["np_int", "np_dt"], ["np_bool", "pd_float"], ["pa_float", "np_int"], ["pd_str", "pl_float"]]
MULTI3 = [["np_float", "np_str", "cat"], ["np_str", "cat", "np_float"], ["np_int", "np_float", "np_bool"], ["cat", "np_dt", "pd_str"]]


def _row_alphabet(kinds):
    per = [[None, 0, 1] if k in NULLABLE else [0, 1] for k in kinds]
    return [list(t) for t in itertools.product(*per)]


def _gb_multi(big, depth="gb"):
    def gen(kinds, N, fixed_first):
        rows = _row_alphabet(kinds)
        for n in range(1, N + 1):
            for seq in itertools.product(rows, repeat=n):
                if n == N and fixed_first and seq[0] != rows[-1]: continue
                for sort in (True, False):
                    if depth == "gb": yield {"depth": "gb", "kind": "multi", "kinds": kinds, "keys": [list(r) for r in seq], "sort": sort, "route": "plain"}
                    else:
                        for flags in (((True, False), (False, False), (False, True)) if n < 2 or (n == 2 and len(kinds) == 2) else ((True, False),)):
                            yield {"depth": "f2", "kinds": kinds, "keys": [list(r) for r in seq], "sort": sort, "parallel": flags[0], "dict": flags[1]}
    e = 1 if big else 0
    if depth == "gb": streams = [gen(k, (3 if i < 4 else 2) + e, big) for i, k in enumerate(MULTI2)] + [gen(k, (3 if i < 2 else 2) + e, i < 2 or big) for i, k in enumerate(MULTI3)]
    else: streams = [gen(k, 3 + e, big) for k in MULTI2[:4]] + [gen(k, 3, True) for k in MULTI3[:2]]
    return C.roundrobin(*streams)


def _gb_chunked(big):
    def gen(kind, alpha, N):
        for keys in _seqs(alpha, 0, N):
            for ch in chunkings(len(keys), 3):
                for sort in (True, False):
                    yield {"depth": "gb", "kind": kind, "keys": keys, "sort": sort, "route": "chunks", "chunks": ch}
    e = 1 if big else 0
    return C.roundrobin(gen("pa_float", [None, 0, 1, 2], 3 + e), gen("pa_float", [0, 1, 2], 4 + e), gen("pa_int", [0, 1, 2], 3 + e), gen("pa_str", [None, 0, 1], 2 + e),
                        gen("pa_dict", [None, 0, 1, 2], 3 + e), gen("pa_dict_own", [None, 0, 1, 2], 3 + e))


def _f1(big):
    def gen(kind):
        for keys in _seqs(alphabet(kind), 0, 4 if big else 3):
            for sort in (True, False):
                yield {"depth": "f1", "kind": kind, "keys": keys, "sort": sort}
    def gen_chunked(kind):
        for keys in _seqs(alphabet(kind), 0, 3):
            for ch in chunkings(len(keys), 3):
                if len(ch) > 1: yield {"depth": "f1", "kind": kind, "keys": keys, "sort": False, "chunks": ch}
    def gen_range():
        for n in range(0, 5):
            for start in (0, 3, -4):
                for step in (1, 2, 3, -1, -2): yield {"depth": "f1", "kind": "range", "start": start, "step": step, "n": n, "sort": False}
    return C.roundrobin(*[gen(k) for k in SINGLE_KINDS], gen_chunked("pa_float"), gen_chunked("pa_str"), gen_chunked("pa_dict"), gen_chunked("pa_dict_own"), gen_range())


def _mono(big):
    def gen(kind):
        for keys in _seqs(alphabet(kind), 1, 5 if big else 4):
            yield {"depth": "mono", "kind": kind, "keys": keys}
    def gen_chunked(kind, alpha):
        for keys in _seqs(alpha, 1, 4 if big else 3):
            for ch in chunkings(len(keys), 3):
                if len(ch) > 1: yield {"depth": "mono", "kind": kind, "keys": keys, "chunks": ch}
    def gen_range():
        for n in range(1, 5):
            for step in (1, 2, -1): yield {"depth": "mono", "kind": "range", "start": 3, "step": step, "n": n}
    return C.roundrobin(*[gen(k) for k in MONO_KINDS], gen_chunked("pa_float", [0, 1, 2]), gen_chunked("pa_int", [0, 1, 2]), gen_range())


def cases(tier, seed):
    big = tier == "thorough"; e = 1 if big else 0
    n_plain = lambda kind: (4 if kind in ("np_float", "np_str") else 3) + e
    n_thr = lambda kind: (5 if kind == "np_float" else 4 if kind in ("np_int", "np_dt", "pd_float") else 3) + e
    return C.roundrobin(_gb_single(SINGLE_KINDS, n_plain, "plain"), _gb_single(THR_KINDS, n_thr, "thr", lo=1), _gb_chunked(big), _gb_multi(big), _gb_range(big),
                        _f1(big), _gb_multi(big, depth="f2"), _mono(big), _gb_thr_tail(big), weights=(4, 4, 3, 3, 1, 3, 2, 2, 1))


def extra_cases(tier, seed):
    if tier != "thorough": return []
    N = 1_000_000
    return [{"depth": "big", "kind": "np_float", "pattern": "tile", "unit": [2, 0, 1, 3], "n": N, "sort": True},
            {"depth": "big", "kind": "np_float", "pattern": "tile", "unit": [2, None, 1, 3], "n": N, "sort": True},
            {"depth": "big", "kind": "np_float", "pattern": "sorted_prefix", "unit": [2, 0, 1, 3], "n": N, "sort": False},
            {"depth": "big", "kind": "np_float", "pattern": "sorted", "unit": [0], "n": N, "sort": True},
            {"depth": "big", "kind": "np_int", "pattern": "tile", "unit": [2, 0, 1, 3], "n": N, "sort": True},
            {"depth": "big", "kind": "np_dt", "pattern": "tile", "unit": [2, None, 1, 3], "n": N, "sort": True}]


def random_case(rnd, tier):
    n = rnd.randint(5, 40 if tier == "thorough" else 12); d = rnd.random()
    if d < 0.45:
        kind = rnd.choice(SINGLE_KINDS); route = rnd.choice(["plain", "thr"]) if kind in THR_KINDS else "plain"
        return {"depth": "gb", "kind": kind, "keys": [rnd.choice(alphabet(kind)) for _ in range(n)], "sort": rnd.random() < 0.5, "route": route}
    if d < 0.6:
        kind = rnd.choice(["pa_float", "pa_int"]); keys = [rnd.choice([0, 1, 2]) for _ in range(n)]; cuts = sorted(rnd.randint(0, n) for _ in range(rnd.randint(1, 2))); b = [0] + cuts + [n]
        return {"depth": "gb", "kind": kind, "keys": keys, "sort": rnd.random() < 0.5, "route": "chunks", "chunks": [b[i + 1] - b[i] for i in range(len(b) - 1)]}
    if d < 0.85:
        kinds = rnd.choice(MULTI2 + MULTI3); rows = _row_alphabet(kinds)
        return {"depth": "gb", "kind": "multi", "kinds": kinds, "keys": [rnd.choice(rows) for _ in range(n)], "sort": rnd.random() < 0.5, "route": "plain"}
    kind = rnd.choice(MONO_KINDS); al = [x for x in alphabet(kind) if x is not None]
    keys = sorted(rnd.choice(al) for _ in range(n))
    if rnd.random() < 0.6: keys[rnd.randrange(n)] = rnd.choice(alphabet(kind))
    return {"depth": "gb", "kind": kind, "keys": keys, "sort": rnd.random() < 0.5, "route": "thr"}


def nontrivial(case):
    if case["depth"] == "big" or case.get("route") in ("thr", "chunks") or case.get("chunks"): return True
    if case.get("kind") == "range": return case["n"] >= 2
    ks = [tuple(k) if isinstance(k, list) else k for k in case["keys"]]
    nn = {k for k in ks if k is not None and not (isinstance(k, tuple) and None in k)}
    return len(nn) >= 2 or len(nn) < len(set(ks))


# ----------------------------------------------------------------------------- checks
def _build(case):
    """-> (object for the library, logical keys, number of keys)"""
    if case.get("kind") == "range":
        idx = pd.RangeIndex(case["start"], case["start"] + case["step"] * case["n"], case["step"])
        return idx, [case["start"] + case["step"] * i for i in range(case["n"])], 1
    if case.get("kind") == "multi" or case["depth"] == "f2":
        kinds = case["kinds"]; cols = []; labs = []
        for j, kind in enumerate(kinds):
            o, l = make_key(kind, [row[j] for row in case["keys"]], name=f"k{j}"); cols.append(o); labs.append(l)
        return cols, [tuple(l[r] for l in labs) if all(l[r] is not None for l in labs) else None for r in range(len(case["keys"]))], len(kinds)
    o, l = make_key(case["kind"], case["keys"], chunks=case.get("chunks"))
    return o, l, 1


class _threshold:
    def __init__(self, on): self.on = on
    def __enter__(self):
        from groupby_lib.groupby import core as gc
        self.gc = gc; self.old = gc.THRESHOLD_FOR_CHUNKED_FACTORIZE
        if self.on: gc.THRESHOLD_FOR_CHUNKED_FACTORIZE = 1
    def __exit__(self, *a): self.gc.THRESHOLD_FOR_CHUNKED_FACTORIZE = self.old


def _quiet(): return contextlib.redirect_stdout(io.StringIO())


def check_case(sess, case):
    d = case["depth"]
    if d == "gb": return _check_gb(sess, case)
    if d == "f1": return _check_f1(sess, case)
    if d == "f2": return _check_f2(sess, case)
    if d == "mono": return _check_mono(sess, case)
    if d == "big": return _check_big(sess, case)
    raise ValueError(d)


ROUTE_TAG = {"plain": "route: single pass", "thr": "route: chunk-wise factorisation (threshold lowered)", "chunks": "route: pre-chunked arrow key", "big": "route: chunk-wise factorisation (10^6 rows)"}


def _check_gb(sess, case):
    from groupby_lib.groupby import GroupBy
    obj, keys, nkeys = _build(case); calls = 0; tag = ROUTE_TAG[case.get("route", "plain")]
    def rec(kind, fn, clause, detail): sess.record(kind, fn, f"{clause} [{tag}]", detail)
    def construct():
        with _threshold(case.get("route") == "thr"), _quiet(): return GroupBy(obj, sort=case["sort"])
    try: gb = construct(); calls += 1
    except Exception as ex:
        kinds = case["kinds"] if case["kind"] == "multi" else [case["kind"]]
        what = ("string" if any(BASE.get(k) in ("str", "cat") for k in kinds) else "numeric") + (" key with a null" if any(is_null_key(k) for k in keys) else " key without null")
        rec("raises", "GroupBy.__init__", f"constructing a grouping from a supported key container must not fail: {type(ex).__name__} on a {what}", str(ex)[:200]); return 1
    try:
        codes, err = logical_codes(gb); labels = list(gb.result_index)
    except Exception as ex:
        rec("post", "GroupBy.__init__", f"group_ikey / result_index are readable after construction: {type(ex).__name__}", str(ex)[:200]); return calls
    if err: rec("post", "GroupBy.__init__", "chunk-local codes index their pointer table", err); return calls
    for clause, detail in inv_violations(codes, labels, keys): rec("post", "GroupBy.__init__", clause, detail)
    chunked = bool(gb.key_is_chunked)
    try:
        with _quiet(): kc = gb.key_count; ik = gb.ikey_count; ng = gb.ngroups; ln = len(gb)
        for clause, detail in sizes_violations(kc, ik, ng, ln, labels, keys): rec("post", "GroupBy.key_count", clause, detail)
    except Exception as ex:
        rec("raises", "GroupBy.key_count", f"the per-group sizes can be read on every grouping: {type(ex).__name__}", str(ex)[:200])
    g2 = gb
    if chunked:
        try: g2 = construct(); calls += 1
        except Exception: g2 = gb
    try:
        with _quiet(): groups = g2.groups
        for clause, detail in groups_violations(groups, list(g2.result_index), keys): rec("post", "GroupBy.groups", clause, detail)
    except Exception as ex:
        rec("raises", "GroupBy.groups", f"the group-to-rows mapping can be read on every grouping: {type(ex).__name__}", str(ex)[:200]); return calls
    if chunked:
        # `groups` rewrites the codes in place (chunk-local -> global): the class invariant must survive it, and so must the sizes computed afterwards
        try:
            codes2, err2 = logical_codes(g2); labels2 = list(g2.result_index)
            if err2: rec("post", "GroupBy.groups", "chunk-local codes index their pointer table (after groups)", err2)
            else:
                for clause, detail in inv_violations(codes2, labels2, keys): rec("post", "GroupBy.groups", "after building groups: " + clause, detail)
                with _quiet(): kc2 = g2.key_count; ik2 = g2.ikey_count
                for clause, detail in sizes_violations(kc2, ik2, g2.ngroups, len(g2), labels2, keys): rec("post", "GroupBy.groups", "after building groups: " + clause, detail)
        except Exception as ex:
            rec("raises", "GroupBy.groups", f"views stay readable after groups: {type(ex).__name__}", str(ex)[:200])
        try:
            g3 = construct(); calls += 1
            with _quiet(): g3._unify_group_key_chunks()
            codes3 = code_list(g3.group_ikey); shown = {"got": str(codes3), "expected": str(codes), "keys": str(keys)}
            if len(codes3) != len(codes): rec("post", "GroupBy._unify_group_key_chunks", "one unified code per row", shown)
            else:
                if any(a != b for a, b in zip(codes3, codes) if b == -1): rec("post", "GroupBy._unify_group_key_chunks", "the null code stays the null code when chunk-local codes are unified", shown)
                if any(a != b for a, b in zip(codes3, codes) if b != -1): rec("post", "GroupBy._unify_group_key_chunks", "unified code == pointer[chunk-local code]", shown)
        except Exception as ex:
            rec("raises", "GroupBy._unify_group_key_chunks", f"chunk-local codes can be unified: {type(ex).__name__}", str(ex)[:200])
    return calls


def _check_f1(sess, case):
    from groupby_lib.groupby.factorization import factorize_1d
    obj, keys, _ = _build(case)
    try:
        with _quiet(): codes, labels = factorize_1d(obj, sort=case["sort"])
    except Exception as ex:
        sess.record("raises", "factorization.factorize_1d", f"a supported 1-D key must be factorised: {type(ex).__name__}", str(ex)[:200]); return 1
    for clause, detail in inv_violations(code_list(codes), list(labels), keys): sess.record("post", "factorization.factorize_1d", clause, detail)
    return 1


def _check_f2(sess, case):
    from groupby_lib.groupby.factorization import factorize_2d
    cols, keys, nk = _build(case)
    try:
        with _quiet(): codes, labels = factorize_2d(*cols, sort=case["sort"], factorize_in_parallel=case["parallel"], use_dict_limit=0 if case["dict"] else 500_000_000)
    except Exception as ex:
        sess.record("raises", "factorization.factorize_2d", f"supported 1-D keys must be factorised together: {type(ex).__name__}", str(ex)[:200]); return 1
    if getattr(labels, "nlevels", None) != nk: sess.record("post", "factorization.factorize_2d", "labels have one level per key", {"got": getattr(labels, "nlevels", None), "expected": nk})
    for clause, detail in inv_violations(code_list(codes), list(labels), keys): sess.record("post", "factorization.factorize_2d", clause, detail)
    return 1


def _check_mono(sess, case):
    from groupby_lib.groupby.factorization import monotonic_factorization
    obj, keys, _ = _build(case); n = len(keys)
    try:
        with _quiet(): cutoff, codes, labels = monotonic_factorization(obj)
    except Exception as ex:
        sess.record("raises", "factorization.monotonic_factorization", f"a non-empty numeric key must be accepted: {type(ex).__name__}", str(ex)[:200]); return 1
    cutoff = int(cutoff)
    if not (0 <= cutoff <= n): sess.record("post", "factorization.monotonic_factorization", "0 <= cutoff <= number of rows", {"got": cutoff, "rows": n}); return 1
    # the caller keeps codes[:cutoff] as final codes of those rows (unsigned: no null code exists there), so the prefix must be null-free and faithful
    pre = keys[:cutoff]; cl = code_list(np.asarray(codes)[:cutoff])
    if any(k is None for k in pre):
        sess.record("post", "factorization.monotonic_factorization", "the monotone prefix [0, cutoff) contains no null key (its codes are unsigned: a null key cannot be coded there)", {"cutoff": cutoff, "keys": str(keys), "codes": str(cl), "labels": str(list(labels))})
    for clause, detail in inv_violations(cl, list(labels), pre):
        if clause.startswith("a row has the null code"): continue
        sess.record("post", "factorization.monotonic_factorization", "on the prefix [0, cutoff): " + clause, dict(detail, cutoff=cutoff))
    return 1


def _big_keys(case):
    n = case["n"]; unit = case["unit"]; u = np.array([np.nan if x is None else float(x) for x in unit])
    if case["pattern"] == "tile": f = np.tile(u, n // len(u) + 1)[:n]
    elif case["pattern"] == "sorted": f = np.floor(np.arange(n) / 7.0)
    else:
        m = (n * 6) // 10; f = np.concatenate([np.floor(np.arange(m) / 1000.0) + 10.0, np.tile(u, (n - m) // len(u) + 1)[: n - m]])
    if case["kind"] == "np_float": return f + 0.5, f + 0.5
    if case["kind"] == "np_int": return f.astype(np.int64), f
    if case["kind"] == "np_dt":
        i = np.where(np.isnan(f), C.MIN_INT, np.nan_to_num(f).astype(np.int64) * 86_400_000_000_000 + 1_577_836_800_000_000_000)
        return i.astype("M8[ns]"), np.where(np.isnan(f), np.nan, i.astype(np.float64))
    raise ValueError(case["kind"])


def _check_big(sess, case):
    """the same invariant, vectorised, on a key that takes the chunked route through the real 10^6 threshold"""
    from groupby_lib.groupby import GroupBy
    import pyarrow as pa
    obj, f = _big_keys(case); n = len(f); null = np.isnan(f); nn = int((~null).sum()); calls = 0; tag = ROUTE_TAG["big"]
    def rec(kind, fn, clause, detail): sess.record(kind, fn, f"{clause} [{tag}]", detail)
    def num(labels):
        a = pd.Index(list(labels)).to_numpy() if len(labels) else np.empty(0, np.float64)
        return a.astype("M8[ns]").astype(np.int64).astype(np.float64) if case["kind"] == "np_dt" and len(a) else a.astype(np.float64)
    def inv(gb, fn, prefix=""):
        ik = gb.group_ikey
        if isinstance(ik, pa.ChunkedArray):
            chunks = [c.to_numpy(zero_copy_only=False).astype(np.int64) for c in ik.chunks]; ptrs = gb._group_key_pointers
            if ptrs is not None:
                if len(ptrs) != len(chunks): rec("post", fn, prefix + "chunk-local codes index their pointer table", f"{len(ptrs)} tables, {len(chunks)} chunks"); return
                if any(len(c) and int(c.max()) >= len(p_) for p_, c in zip(ptrs, chunks)): rec("post", fn, prefix + "chunk-local codes index their pointer table", "code >= len(pointer)"); return
                chunks = [np.where(c < 0, -1, np.asarray(p_, dtype=np.int64)[np.clip(c, 0, None)]) if len(p_) else np.full(len(c), -1, np.int64) for p_, c in zip(ptrs, chunks)]
            codes = np.concatenate(chunks) if chunks else np.empty(0, np.int64)
        else: codes = np.asarray(ik).astype(np.int64)
        lab = num(gb.result_index)
        if len(codes) != n: rec("post", fn, prefix + "every row has exactly one code: len(codes) == number of rows", {"got": len(codes), "expected": n}); return
        if not np.array_equal(codes == -1, null):
            r = int(np.flatnonzero((codes == -1) != null)[0]); rec("post", fn, prefix + "a row has the null code -1 exactly when its key or any component of it is null", {"first row": r, "code": int(codes[r]), "key": str(f[r])})
        coded = ~null & (codes != -1); inr = coded & (codes >= 0) & (codes < len(lab))
        bad = coded & ~inr; bad[inr] = lab[codes[inr]] != f[inr]
        if bad.any():
            r = int(np.flatnonzero(bad)[0]); rec("post", fn, prefix + "the label at a row's code equals the row's key", {"first row": r, "code": int(codes[r]), "key": str(f[r]), "labels": str(lab[:8])})
        if len(np.unique(lab)) != len(lab) or np.isnan(lab).any(): rec("post", fn, prefix + "labels are pairwise distinct", {"labels": str(lab[:12])})
    def sizes(gb, fn, prefix=""):
        with _quiet(): ik = np.asarray(gb.ikey_count); kc = np.asarray(gb.key_count)
        lab = num(gb.result_index); exp = np.array([int((f == l).sum()) for l in lab[:64]], dtype=np.int64)
        if gb.ngroups != len(lab): rec("post", fn, prefix + "ngroups == number of labels", {"got": gb.ngroups, "expected": len(lab)})
        if len(gb) != n: rec("post", fn, prefix + "len(GroupBy) == number of rows", {"got": len(gb), "expected": n})
        if not np.array_equal(ik[:64], exp) or not np.array_equal(kc, ik): rec("post", fn, prefix + "per-group sizes (key_count, ikey_count) equal the number of rows with that label", {"got": str(ik[:8]), "expected": str(exp[:8])})
        if int(ik.sum()) != nn: rec("post", fn, prefix + "the per-group sizes add up to the number of non-null-key rows", {"got": int(ik.sum()), "expected": nn})
    try:
        with _quiet(): gb = GroupBy(obj, sort=case["sort"]); calls += 1
    except Exception as ex:
        rec("raises", "GroupBy.__init__", f"constructing a grouping from a supported key container must not fail: {type(ex).__name__}", str(ex)[:200]); return 1
    inv(gb, "GroupBy.__init__")
    try: sizes(gb, "GroupBy.key_count")
    except Exception as ex: rec("raises", "GroupBy.key_count", f"the per-group sizes can be read on every grouping: {type(ex).__name__}", str(ex)[:200])
    try:
        with _quiet(): g2 = GroupBy(obj, sort=case["sort"]); calls += 1; groups = g2.groups
        poss = [np.asarray(p_) for p_ in groups.values()]; lens = np.array([len(p_) for p_ in poss], dtype=np.int64)
        allp = np.concatenate(poss).astype(np.int64) if poss else np.empty(0, np.int64); labrep = np.repeat(num(list(groups.keys())), lens)
        okpos = np.array_equal(f[allp], labrep)                                   # every listed row has the key of its label (a NaN key never equals a label)
        if len(allp) > 1:
            inner = np.ones(len(allp) - 1, dtype=bool); inner[(np.cumsum(lens)[:-1] - 1)[lens[:-1] > 0]] = False
            okpos = okpos and bool((np.diff(allp)[inner] > 0).all())              # ascending inside every list
        if not okpos: rec("post", "GroupBy.groups", "groups[label] lists exactly the ascending positions of the rows with that key", {"sizes": str({str(k): len(v) for k, v in list(groups.items())[:6]})})
        if not np.array_equal(np.sort(allp), np.flatnonzero(~null)): rec("post", "GroupBy.groups", "the group lists partition the non-null-key rows (disjoint, jointly all of them)", {"listed": int(len(allp)), "non_null_rows": nn})
        inv(g2, "GroupBy.groups", "after building groups: "); sizes(g2, "GroupBy.groups", "after building groups: ")
    except Exception as ex:
        rec("raises", "GroupBy.groups", f"the group-to-rows mapping can be read on every grouping: {type(ex).__name__}", str(ex)[:200])
    return calls


# ----------------------------------------------------------------------------- sidecar contracts on the kernels under the glue
def install(sess):
    def pre_mono(arr_list, total_len):
        if sum(len(a) for a in arr_list) != total_len: return "sum of chunk lengths == total_len"
    def post_mono(out, arr_list, total_len):
        cutoff, codes, labels = out; cutoff = int(cutoff)
        if sum(len(a) for a in arr_list) != total_len: return None
        if not (0 <= cutoff <= total_len): return "0 <= cutoff <= total_len (a chunk must not be read past its end: empty chunks, empty key)"
        if cutoff == 0: return None
        flat = np.concatenate([np.asarray(a) for a in arr_list])
        c = np.asarray(codes[:cutoff]).astype(np.int64); lab = np.asarray(labels)
        if len(lab) == 0 or c.max() >= len(lab): return "prefix codes index the labels"
        if not (lab[c] == flat[:cutoff]).all(): return "labels[codes[i]] == element i for every i < cutoff (a NaN/NaT inside the prefix breaks it: comparisons with them are all false)"
        if len(lab) > 1 and not (lab[1:] > lab[:-1]).all(): return "labels strictly increasing (hence pairwise distinct)"
    sess.wrap("groupby_lib.groupby.factorization", "_monotonic_factorization", requires=pre_mono, ensures=post_mono)

    def snap_cf(codes, code_weights, code_tracker): return np.array(codes, copy=True)
    def pre_cf(codes, code_weights, code_tracker):
        codes = np.asarray(codes)
        if codes.ndim != 2 or codes.shape[1] != len(code_weights): return "codes is rows x keys and has one weight per key"
        if codes.dtype.kind not in "iu": return f"component codes are integers (got {codes.dtype})"
        if codes.size and int(codes.min()) < -1: return "component codes >= -1"
        nn = codes[(codes >= 0).all(axis=1)] if codes.size else codes[:0]
        if len(nn):      # the mixed radix only matters for rows that are not null
            k = nn.astype(np.int64) @ np.asarray(code_weights, dtype=np.int64)
            if len(np.unique(k)) != len(np.unique(nn, axis=0)): return "the weighted code sum is injective on the non-null code tuples (mixed radix)"
            if len(code_tracker) > 0 and (int(k.min()) < 0 or int(k.max()) >= len(code_tracker)): return "weighted code sums index the tracker array"
    def post_cf(out, old, codes, code_weights, code_tracker):
        comb, uniq = out
        if old is None or old.dtype.kind not in "iu": return None
        nullrow = (old < 0).any(axis=1) if old.size else np.zeros(len(old), bool)
        if not np.array_equal(np.asarray(comb) < 0, nullrow): return "combined code == -1 exactly for the rows with a -1 in any component"
        nn = np.flatnonzero(~nullrow)
        if len(nn) and (int(np.max(comb)) >= len(uniq) or not np.array_equal(np.asarray(uniq)[np.asarray(comb)[nn]], old[nn])): return "uniques[combined code] == the row's component codes"
        if len(uniq) and len(np.unique(np.asarray(uniq), axis=0)) != len(uniq): return "unique code tuples are pairwise distinct"
    sess.wrap("groupby_lib.groupby.factorization", "_combine_factorizations", requires=pre_cf, ensures=post_cf, snapshot=snap_cf)

    def _flat(group_key_list): return np.concatenate([np.asarray(a) for a in group_key_list]) if len(group_key_list) else np.empty(0, np.int64)
    def pre_ix(group_key_list, group_counts, key_map=None, mask=None):
        k = _flat(group_key_list); ng = len(group_counts)
        if k.dtype.kind not in "iu": return f"codes are integers (got {k.dtype})"
        k = k.astype(np.int64); sel = k >= 0
        if mask is not None: sel &= np.asarray(mask, dtype=bool)
        ks = k[sel]
        if len(ks) and int(ks.max()) >= ng: return "codes < number of groups (else the kernel writes out of bounds)"
        if key_map is not None: ks = np.asarray(key_map)[ks]
        if not np.array_equal(np.bincount(ks, minlength=ng)[:ng] if len(ks) else np.zeros(ng, np.int64), np.asarray(group_counts)): return "group_counts[g] == number of selected rows with code g (else a group's segment overflows into its neighbour)"
    def post_ix(out, group_key_list, group_counts, key_map=None, mask=None):
        k = _flat(group_key_list)
        if k.dtype.kind not in "iu": return None
        k = k.astype(np.int64); sel = k >= 0
        if mask is not None: sel &= np.asarray(mask, dtype=bool)
        if len(k[sel]) and int(k[sel].max()) >= len(group_counts): return None
        g = np.asarray(key_map)[k[sel]] if key_map is not None else k[sel]; pos = np.flatnonzero(sel)
        exp = pos[np.argsort(g, kind="stable")]
        if not np.array_equal(np.asarray(out), exp): return "indexer == selected row positions sorted by (group, position)"
    sess.wrap("groupby_lib.groupby.core", "GroupBy._build_group_sorted_indexer_numba", requires=pre_ix, ensures=post_ix)
