"""C07 — transform=True broadcasts exactly the per-group result.

B (bounded, the only tier): run-time postcondition on every public reduction that accepts `transform=True`
(GroupBy.size/count/sum/mean/min/max/first/last/var/std/median and GroupBy.apply with a scalar function), taken from the statement.
For a call  out = GroupBy(keys).<op>(values, mask=m, transform=True)  and  ref = GroupBy(keys).<op>(values, mask=m)  (both on freshly
built objects; the reference of the relation is the library's own plain reduction, as the statement says - its correctness is C01):
   ensures  container(out) follows values (pandas in -> pandas out, polars in -> polars out, numpy/dict of numpy -> the library's pandas convention;
            1-D in -> Series, DataFrame / dict of columns in -> DataFrame with the same column names)
            len(out) == n
            index(out) == index of the values (position by position, duplicates and order kept); RangeIndex(n) when the values carry none
            for every row r with a non-null key whose label is reported by ref:   out[r] == ref[label(r)]
            for every row r with a null key:                                      out[r] == neutral(op)   (0 for size/count/sum, null otherwise)
            for every row r whose label is not reported by ref (no selected row): out[r] == neutral(op)
   label(r) is the LOGICAL key of the row (from the case), not the library's code, so a wrong code is visible.
Key representations: contiguous; chunked with per-chunk dictionaries (pyarrow ChunkedArray keys, and numpy keys with
core.THRESHOLD_FOR_CHUNKED_FACTORIZE lowered to 1); the same started after the object re-laid itself out (chunked unified in place after
`.groups`; concatenated after an earlier transform).
Sidecar contracts on the real functions of the chain: GroupBy._apply_gb_reduction (len == n when transform), GroupBy._unify_group_key_chunks
(the re-layout keeps every row's logical group; shared with C13).
"""
import itertools, io, contextlib
import numpy as np, pandas as pd
from . import common as C

PROP = "C07"; LEVEL = "exploration"; P_TIER = False
OPS = ["size", "count", "sum", "mean", "min", "max", "first", "last", "var", "std", "median", "apply"]
ZERO_NEUTRAL = ("size", "count", "sum")
SCOPE = {"quick": "18 streams (key kind, representation, value class, container), each the full product of: every key sequence over {null,a,b,c} of n<=3 rows (n<=4 for contiguous float keys with numpy float values; 2<=n<=4 for chunked keys) "
                  "x [pyarrow ChunkedArray keys: every split into 2..3 non-empty chunks] x value-null patterns (all for n<=2, else none / exactly one / all) x masks {none, every boolean, 6 slices incl. negative and out-of-range bounds, "
                  "4 position lists incl. repeats and negatives} x sort on/off x [chunked keys: started fresh / after `.groups` (unified in place) / after an earlier transform (concatenated)] x 12 reductions "
                  "(size count sum mean min max first last var std median apply(scalar function)). Streams: contiguous float/str/int-valued/categorical(with an unused category)/two-key keys; pyarrow ChunkedArray float and int keys; numpy float and int keys with "
                  "THRESHOLD_FOR_CHUNKED_FACTORIZE=1; values numpy / pandas Series with a shuffled index containing duplicates / polars Series / pandas DataFrame / dict of numpy columns / polars DataFrame of classes float, int, bool, datetime, timedelta. "
                  "Each product is walked in a fixed pseudo-random order, sizes and streams interleaved, and CUT BY THE TIME BUDGET (a spread-out sample, not the whole product); plus seeded random cases up to 16 rows",
         "thorough": "as quick with n<=4 for every stream (n<=5 for contiguous float/float and for chunked keys), random cases up to 40 rows"}
RULE = "a case = (keys, key kind, representation [splits, prior re-layout], sort, value class, container, value-null pattern, mask); distinct = distinct canonical JSON; non-trivial = at least two labels, or a null key, or a mask, or a null value, or a chunked representation"
ASSUMPTIONS = ["the reference of the relation is the library's own plain reduction on a freshly built GroupBy (its correctness is property C01)",
               "pandas / polars / pyarrow construction, .to_numpy(), Index.equals behave as documented",
               "values compared with relative tolerance 1e-9 (var/std are recomputed from broadcast sums), temporal means with the float64 resolution of a quotient",
               "np.median / user functions are only driven on numeric values (they fail loudly on datetimes with and without transform)",
               "BOUNDED: everything here is checked only within the stated scope"]
REQUIRED_CONTRACTS = {"core.GroupBy._apply_gb_reduction": 1, "core.GroupBy._unify_group_key_chunks": 1}
EXPLANATION = ("Bounded only. The property is a relation between two outputs of pandas/polars glue (_apply_gb_reduction's transform branch, apply's transform branch, the index/container restoration helpers); it is decided by a "
               "run-time postcondition taken clause by clause from the statement and evaluated on the real public methods over a bounded-exhaustive space of keys x masks x reductions x key representations x value containers.")
BUDGET = {"quick": 60, "thorough": 500}
CATS = ["c", "a", "b", "unused"]


def _spread(a):
    """the scalar user function driven through GroupBy.apply"""
    return float(np.max(a)) - float(np.min(a))


# ----------------------------------------------------------------------------- materialisation
def make_keys(kkind, keys, rep="contig", splits=None):
    """-> (object to pass as group key, list of logical labels (None = null key))"""
    if kkind == "float":
        a = np.array([np.nan if x is None else float(x) for x in keys]); labs = [None if x is None else float(x) for x in keys]
    elif kkind == "int":
        a = np.array([0 if x is None else x + 5 for x in keys], dtype=np.int64); labs = [0 if x is None else x + 5 for x in keys]
    elif kkind == "str":
        return np.array([None if x is None else "abc"[x] for x in keys], dtype=object), [None if x is None else "abc"[x] for x in keys]
    elif kkind == "cat":
        labs = [None if x is None else "abc"[x] for x in keys]
        return pd.Categorical(labs, categories=CATS), labs
    elif kkind == "two":
        k1 = np.array([np.nan if x is None else float(x // 2) for x in keys]); k2 = np.array(["ev" if (x or 0) % 2 == 0 else "od" for x in keys], dtype=object)
        return [k1, k2], [None if x is None else (float(x // 2), "ev" if x % 2 == 0 else "od") for x in keys]
    else: raise ValueError(kkind)
    if rep == "pa":
        import pyarrow as pa
        b = np.cumsum([0] + list(splits))
        return pa.chunked_array([a[b[i]:b[i + 1]] for i in range(len(splits))]), labs
    return a, labs


def shuffled_index(n):
    """not sorted, with duplicates, never equal to range(n)"""
    return pd.Index([(i * 7 + 3) % 4 + (10 if i % 3 == 0 else 0) for i in range(n)], name="row")


def make_container(vkind, n, nullpat, cont):
    """-> (values object, {column: list of logical values}, index or None)"""
    a, _ = C.make_values(vkind, n, nullpat)
    b = a[::-1].copy()
    idx = shuffled_index(n)
    if cont == "np": return a, None
    if cont == "pd": return pd.Series(a, index=idx, name="x"), idx
    if cont == "pl":
        import polars as pl
        return pl.Series("x", a), None
    if cont == "df": return pd.DataFrame({"a": a, "b": b}, index=idx), idx
    if cont == "dict": return {"a": a, "b": b}, None
    if cont == "pldf":
        import polars as pl
        return pl.DataFrame({"a": a, "b": b}), None
    raise ValueError(cont)


def _columns(obj):
    """-> ordered {column name or None: list of scalars} of a library result (pandas / polars / numpy, 1-D or 2-D)"""
    import polars as pl
    def pl_list(s):
        # polars keeps its own validity: a temporal entry whose stored integer is -2^63 is a VALID (absurd) time for polars although NumPy reads that integer as NaT -
        # reading the result through NumPy alone would take "the integer null re-labelled as a time" for a proper null
        a = list(s.to_numpy())
        if isinstance(s.dtype, (pl.Datetime, pl.Duration)):
            for i, (isn, ph) in enumerate(zip(s.is_null().to_list(), s.to_physical().to_list())):
                if not isn and ph == -2 ** 63: a[i] = "valid polars time holding -2^63 (the integer null re-labelled as a time)"
        return a
    if isinstance(obj, pl.Series): return {None: pl_list(obj)}
    if isinstance(obj, pl.DataFrame): return {c: pl_list(obj[c]) for c in obj.columns}
    if isinstance(obj, pd.Series): return {None: list(obj.to_numpy())}
    if isinstance(obj, np.ndarray) and obj.ndim == 1: return {None: list(obj)}
    if isinstance(obj, pd.DataFrame): return {c: list(obj[c].to_numpy()) for c in obj.columns}
    raise TypeError(type(obj))


def _labels_of(ref):
    out = []
    for x in ref.index.tolist():
        out.append(tuple(x) if isinstance(x, tuple) else x)
    return out


class lowered_threshold:
    """numpy keys get the chunked representation: THRESHOLD_FOR_CHUNKED_FACTORIZE = 1 for the duration of the case"""
    def __init__(self, on): self.on = on
    def __enter__(self):
        import groupby_lib.groupby.core as core
        self.core = core; self.old = core.THRESHOLD_FOR_CHUNKED_FACTORIZE
        if self.on: core.THRESHOLD_FOR_CHUNKED_FACTORIZE = 1
    def __exit__(self, *a):
        self.core.THRESHOLD_FOR_CHUNKED_FACTORIZE = self.old


# ----------------------------------------------------------------------------- cases
CONTS = ("np", "pd", "pl", "df", "dict", "pldf")


def _masks(n):
    out = C.masks_for(n, ("none", "bool"))
    out += [("slice", [1, None, None]), ("slice", [None, -1, None]), ("slice", [-2, None, None]), ("slice", [None, 2, None]), ("slice", [1, n + 1, None]), ("slice", [-n - 1, 1, None])]
    out += [("pos", [n - 1, 0]), ("pos", [0, 0]), ("pos", [-1])] + ([("pos", [1, -n, 1])] if n > 1 else [])
    seen = set(); uniq = []
    for mk in out:
        if repr(mk) not in seen: seen.add(repr(mk)); uniq.append(mk)
    return uniq


def _pats(vkind, n):
    """value-null patterns: all for n <= 2, else none / exactly one null / all null (a null value only changes a group's result, which is broadcast like any other)"""
    pats = C.null_patterns(vkind, n)
    return pats if n <= 2 else [p for p in pats if sum(p) <= 1 or all(p)]


def permuted(dims, seed):
    """every element of the product of `dims` exactly once, in a fixed pseudo-random order (index -> index * stride + offset mod total, stride coprime to total):
    a time cap then leaves a spread-out sample of the space instead of its lexicographic beginning"""
    import math
    total = 1
    for d in dims: total *= len(d)
    if total == 0: return
    stride = int(total * 0.6180339887) | 1
    while math.gcd(stride, total) != 1: stride += 2
    off = (seed * 7919) % total
    for j in range(total):
        i = (j * stride + off) % total; pick = []
        for d in reversed(dims):
            i, r = divmod(i, len(d)); pick.append(d[r])
        yield tuple(reversed(pick))


def _gen_n(kkind, rep, vkind, cont, n, pres, seed):
    keys = [k for k in itertools.product([None, 0, 1, 2], repeat=n) if not (kkind == "int" and None in k)]      # an int key has no null: such a sequence coincides with another one
    splits = [c for c in C.compositions(n, 3) if len(c) >= 2] if rep == "pa" else [None]
    for k, sp, pat, mask, sort, pre in permuted([keys, splits, _pats(vkind, n), _masks(n), (True, False), pres], seed):
        yield {"keys": list(k), "kkind": kkind, "rep": rep, "splits": sp, "pre": pre, "sort": sort, "vkind": vkind, "cont": cont, "nullpat": list(pat), "mask": mask,
               "null_in_sorted_prefix": rep != "contig" and null_in_sorted_prefix(k)}


def _gen(kkind, rep, vkind, cont, N, nmin=1, pres=(None,), seed=0):
    """one stream: its sizes interleaved (larger sizes get more turns: they hold almost all of the space)"""
    ns = list(range(nmin, N + 1))
    return C.roundrobin(*[_gen_n(kkind, rep, vkind, cont, n, pres, seed) for n in ns], weights=[min(4, 1 + (n - nmin) * 2) if n < 4 else 3 for n in ns])


def null_in_sorted_prefix(keys):
    """derived, for triage only (check_case ignores it): a null key that the chunked factorisation's sorted-prefix scan reaches (known defect of that scan, property C02)"""
    prev = keys[0] if len(keys) else 0
    if prev is None: return True
    for x in keys[1:]:
        if x is None: return True
        if x < prev: return False
        prev = x
    return False


def cases(tier, seed):
    big = tier == "thorough"; N = 4 if big else 3; NC = 5 if big else 4
    P = (None, "groups", "transform")
    G = lambda *a, **k: _gen(*a, seed=seed, **k)
    streams = [
        G("float", "contig", "float", "np", 5 if big else 4),
        G("float", "pa", "float", "np", NC, nmin=2, pres=P),
        G("float", "thr", "float", "pd", NC, nmin=2, pres=P),
        G("str", "contig", "float", "pd", N),
        G("cat", "contig", "int", "pl", N),
        G("two", "contig", "float", "df", N),
        G("float", "contig", "datetime", "pd", N),
        G("int", "pa", "int", "pd", NC, nmin=2, pres=P),
        G("float", "pa", "float", "pl", NC, nmin=2),
        G("float", "contig", "bool", "dict", N),
        G("float", "thr", "datetime", "np", NC, nmin=2),
        G("float", "contig", "float", "pldf", N),
        G("int", "thr", "float", "df", NC, nmin=2),
        G("float", "contig", "timedelta", "pl", N),
        G("float", "contig", "datetime", "pl", N),
        G("int", "contig", "datetime", "pldf", N),
        G("str", "contig", "int", "np", N),
        G("float", "pa", "timedelta", "dict", NC, nmin=2),
        G("two", "contig", "int", "pldf", N),
        G("cat", "contig", "float", "pd", N),
    ]
    return C.roundrobin(*streams)


def extra_cases(tier, seed):
    """designed cases, run before the enumeration: a group whose values are ALL null while every key is present and every group has rows (the broadcast result of such a
    group is the null of the value type - NaT for temporal values - whatever the per-group counters say), for every value class in every container"""
    keys = [0, 1, 0, 1, 2]
    for vkind in ("datetime", "timedelta", "float", "int"):
        for cont in CONTS:
            for pat in ([True, False, True, False, False], [False, True, False, True, True]):
                if vkind == "int" and cont in ("np", "dict"): continue        # a NumPy integer array has no null
                yield {"keys": keys, "kkind": "float", "rep": "contig", "splits": None, "pre": None, "sort": True, "vkind": vkind, "cont": cont, "nullpat": pat, "mask": None, "null_in_sorted_prefix": False}


def random_case(rnd, tier):
    n = rnd.randint(5, 40 if tier == "thorough" else 16)
    kkind = rnd.choice(["float", "float", "int", "str", "cat", "two"])
    rep = rnd.choice(["contig", "pa", "thr"]) if kkind in ("float", "int") else "contig"
    splits = None
    if rep == "pa":
        cuts = sorted(rnd.sample(range(1, n), rnd.randint(1, 3))); b = [0] + cuts + [n]; splits = [b[i + 1] - b[i] for i in range(len(b) - 1)]
    keys = [rnd.choice([None, 0, 1, 2]) for _ in range(n)]
    if kkind == "int": keys = [k or 0 for k in keys]
    return {"keys": keys, "kkind": kkind, "rep": rep, "splits": splits, "pre": rnd.choice([None, "groups", "transform"]) if rep != "contig" else None, "sort": rnd.random() < 0.5, "null_in_sorted_prefix": rep != "contig" and null_in_sorted_prefix(keys),
            "vkind": rnd.choice(["float", "float", "int", "datetime", "bool", "timedelta"]), "cont": rnd.choice(CONTS), "nullpat": [rnd.random() < 0.3 for _ in range(n)],
            "mask": rnd.choice([None, ("bool", [rnd.random() < 0.6 for _ in range(n)]), ("slice", [rnd.randrange(-n, n), None, None]), ("pos", [rnd.randrange(-n, n) for _ in range(rnd.randint(0, n))])])}


def nontrivial(case):
    ks = [k for k in case["keys"] if k is not None]
    return len(set(ks)) >= 2 or (None in case["keys"] and case["kkind"] != "int") or case["mask"] is not None or any(case["nullpat"]) or case["rep"] != "contig"


# ----------------------------------------------------------------------------- the contract
def _ops_for(vkind, mask):
    ops = list(OPS)
    if vkind == "datetime": ops = [o for o in ops if o not in ("sum", "var", "std", "median", "apply")]      # a sum of timestamps has no meaning; np.median / user functions reject datetimes loudly
    if vkind == "timedelta": ops = [o for o in ops if o not in ("var", "std", "median", "apply")]
    if mask is not None and mask[0] != "bool": ops = [o for o in ops if o not in ("median", "apply")]        # apply documents boolean masks only (TypeError otherwise)
    return ops


def _call(gb, op, vals, mask, transform):
    kw = {"transform": True} if transform else {}
    if op == "size": return gb.size(mask=mask, **kw)
    if op == "apply": return gb.apply(vals, _spread, mask=mask, **kw)
    return getattr(gb, op)(vals, mask=mask, **kw)


def _build(case, k):
    from groupby_lib.groupby import GroupBy
    return GroupBy(k, sort=case["sort"])


def _expected_container(cont, op):
    """-> (kind, accepted classes as text)"""
    import polars as pl
    if op == "size": return (pd.Series, np.ndarray), "pandas Series (size takes no values)"
    return {"np": ((pd.Series, np.ndarray), "pandas Series (library convention for numpy input)"), "pd": ((pd.Series,), "pandas Series"), "pl": ((pl.Series,), "polars Series"),
            "df": ((pd.DataFrame,), "pandas DataFrame"), "dict": ((pd.DataFrame,), "pandas DataFrame (library convention for a dict of numpy columns)"), "pldf": ((pl.DataFrame,), "polars DataFrame")}[cont]


def _neutral_ok(got, op, vkind):
    if op in ZERO_NEUTRAL: return C.same(got, 0)
    if C.same(got, None): return True
    return vkind == "bool" and op in ("min", "max", "first", "last") and isinstance(got, (bool, np.bool_)) and not bool(got)      # bool accumulators have no null (as in C01)


def _value_ok(got, exp, op, vkind):
    e = None if C.is_null(exp) else exp
    if e is None: return C.same(got, None)
    if op == "mean" and vkind in ("datetime", "timedelta") and not C.is_null(got):
        try:
            gv = pd.Timestamp(got).value if vkind == "datetime" else pd.Timedelta(got).value; ev = pd.Timestamp(e).value if vkind == "datetime" else pd.Timedelta(e).value
            return abs(gv - ev) <= max(2, abs(ev) * 2.0 ** -50)
        except Exception: return False
    if isinstance(e, (np.timedelta64, pd.Timedelta)): return (not C.is_null(got)) and isinstance(got, (np.timedelta64, pd.Timedelta)) and pd.Timedelta(got) == pd.Timedelta(e)
    if isinstance(e, (np.datetime64, pd.Timestamp)): return (not C.is_null(got)) and isinstance(got, (np.datetime64, pd.Timestamp)) and pd.Timestamp(got) == pd.Timestamp(e)
    if isinstance(got, (np.datetime64, np.timedelta64, pd.Timestamp, pd.Timedelta)): return False            # a number re-labelled as a time
    return C.same(got, e, int_null=False)


def check_case(sess, case, ops=None):
    kkind, vkind, cont = case["kkind"], case["vkind"], case["cont"]; n = len(case["keys"])
    k, labs = make_keys(kkind, case["keys"], case["rep"], case.get("splits"))
    vals, idx = make_container(vkind, n, case["nullpat"], cont)
    m = C.np_mask(case["mask"]); calls = 0
    with lowered_threshold(case["rep"] == "thr"):
        for op in ([case["op"]] if "op" in case else (ops or _ops_for(vkind, case["mask"]))):
            c = dict(case, op=op); sess.current_case = c; fn = f"GroupBy.{op}"
            try:
                with contextlib.redirect_stdout(io.StringIO()):
                    ref = _call(_build(case, k), op, vals, m, False)
            except Exception:
                continue                                   # the plain reduction itself is not available for this input (loud): nothing to relate
            calls += 2
            try:
                with contextlib.redirect_stdout(io.StringIO()):
                    gb = _build(case, k)
                    if case.get("pre") == "groups": gb.groups
                    elif case.get("pre") == "transform": gb.size(transform=True)
                    out = _call(gb, op, vals, m, True)
            except Exception as ex:
                sess.record("raises", fn, f"transform=True must not fail where the plain reduction succeeds: {type(ex).__name__}", str(ex)[:200]); continue
            # ---- container
            classes, text = _expected_container(cont, op)
            if not isinstance(out, classes):
                sess.record("post", fn, "container follows the input (pandas in -> pandas out, polars in -> polars out; 1-D -> Series, columns -> DataFrame)", {"got": type(out).__module__ + "." + type(out).__name__, "expected": text}); continue
            # ---- length
            if len(out) != n:
                sess.record("post", fn, "one value per input row (len(out) == n)", {"got": len(out), "expected": n}); continue
            # ---- index
            if isinstance(out, (pd.Series, pd.DataFrame)):
                want = idx if (idx is not None and op != "size") else pd.RangeIndex(n)
                if not (len(out.index) == n and list(out.index) == list(want)):
                    sess.record("post", fn, "output carries the input's index in input order (RangeIndex when the input has none)", {"got": str(list(out.index)), "expected": str(list(want))})
            # ---- columns
            try: got_cols = _columns(out); ref_cols = _columns(ref)
            except Exception as ex:
                sess.record("post", fn, "container follows the input (result not readable as columns)", str(ex)[:200]); continue
            if cont in ("df", "dict", "pldf") and op != "size" and list(got_cols) != ["a", "b"]:
                sess.record("post", fn, "column names follow the input", {"got": str(list(got_cols)), "expected": "['a', 'b']"}); continue
            if len(got_cols) != len(ref_cols):
                sess.record("post", fn, "column names follow the input", {"got": str(list(got_cols)), "plain reduction": str(list(ref_cols))}); continue
            # ---- values, row class by row class
            ref_labels = _labels_of(ref); bad = {"value": [], "nullkey": [], "unselected": []}
            for (cname, gcol), (_, rcol) in zip(got_cols.items(), ref_cols.items()):
                table = dict(zip(ref_labels, rcol))
                for r in range(n):
                    lab = labs[r]; g = gcol[r]
                    if lab is None:
                        if not _neutral_ok(g, op, vkind): bad["nullkey"].append((cname, r, str(g)))
                    elif lab not in table:
                        if not _neutral_ok(g, op, vkind): bad["unselected"].append((cname, r, str(g)))
                    elif not _value_ok(g, table[lab], op, vkind): bad["value"].append((cname, r, str(g), str(table[lab])))
            if bad["value"]: sess.record("post", fn, "row with a non-null key whose group has a selected row == the plain reduction's value for that group", {"(column,row,got,expected)": bad["value"][:4], "out": str(got_cols)[:300], "plain": str(dict(zip(map(str, ref_labels), zip(*ref_cols.values()))))[:300]})
            if bad["nullkey"]: sess.record("post", fn, "row with a null key receives the neutral/null result (0 for size/count/sum, null otherwise)", {"(column,row,got)": bad["nullkey"][:4], "out": str(got_cols)[:300]})
            if bad["unselected"]: sess.record("post", fn, "row whose group has no selected row receives the neutral/null result (0 for size/count/sum, null otherwise)", {"(column,row,got)": bad["unselected"][:4], "out": str(got_cols)[:300]})
    return calls


def install(sess):
    """sidecar contracts on the real functions of the chain"""
    import inspect
    from groupby_lib.groupby.core import GroupBy
    from . import c13
    sig = inspect.signature(GroupBy.__dict__["_apply_gb_reduction"])
    def post_reduction(out, *a, **k):
        b = sig.bind(*a, **k); b.apply_defaults(); self = b.arguments["self"]
        if b.arguments["transform"]:
            n = sum(len(c) for c in self._group_ikey.chunks) if self.key_is_chunked else len(self._group_ikey)
            if len(out) != n: return f"transform=True: len(out)={len(out)} != number of key rows {n}"
    sess.wrap("groupby_lib.groupby.core", "GroupBy._apply_gb_reduction", ensures=post_reduction)
    c13.wrap_unify(sess)
