"""C08 — cumulative operations are per-group prefix reductions.

P/L (unbounded, maintained in contracts/): _cumulative_reduce generic in the step function, ScalarFuncs.{sum,nansum,min,nanmin,max,nanmax,count,nancount}, L-char, L-lastcum.
B (bounded): run-time postconditions, written from the property statement, on
   the kernel-level entry points  groupby_lib.groupby.numba.cumsum/cummin/cummax/cumcount (integer codes, -1 = null key)   [stream K]
   the public methods             GroupBy.cumsum/cummin/cummax/cumcount (labels, contiguous and chunked keys)              [stream P]
 ensures, at every row r with a non-null key that the mask selects (prefix(r) = selected rows q <= r of the same group):
   (sum)    skip_na=True : out[r] == sum of the non-null values of prefix(r) (0 when there is none)
            skip_na=False: out[r] == sum of prefix(r), null as soon as prefix(r) contains a null ("null from there on")
   (minmax) out[r] == min/max of the non-null values of prefix(r), null when there is none; with skip_na=False only rows whose prefix has
            no null are constrained (the statement defines the null-propagating variant for the running sum only)
   (count)  out[r] == number of earlier selected rows of the group
   (last)   out[last selected row of group g] == the real group reduction of g (GroupBy.sum/min/max/size, numba.group_sum/min/max/size)
   (exact)  int/bool input -> integer result dtype, temporal input -> the input's dtype; values compared exactly (int64 beyond 2^53 and near
            2^62, int32 sums beyond 2^31, datetime64/timedelta64[ns] beyond 2^53 ns with odd nanoseconds)
   (shape)  one output row per input row (what index the result carries is C11's business)
   (frame)  values and mask are not written to
 Rows with a null key or rows the mask drops are NOT constrained here (what they hold is C05's business).
 + precondition monitors on _cumulative_reduce (the `requires` under which the kernel is proved).
Oracle: an executable specification over Python lists (exact int arithmetic; temporal values as integer nanoseconds), not pandas.
"""
import itertools, io, contextlib
import numpy as np, pandas as pd
from . import common as C

PROP = "C08"; LEVEL = "other"; P_TIER = True
VKINDS = ("float", "int", "bool", "datetime", "timedelta", "float32", "int32")
MIN_INT = C.MIN_INT
SCOPE = {"quick": "K (kernel entry points numba.cum*, codes over {-1,0,1}; both skip_na settings and cumsum/cummin/cummax/cumcount on every case, last-value-vs-numba.group_* on every 2nd; float values on every 6th case as a 2-chunk Arrow array): "
                  "every sequence of n<=3 rows x {float,int,bool,datetime,timedelta,float32,int32} x every value-null pattern x {no mask, every boolean mask}; n=4: the same for float/int/bool/int32, and <=1 null (or all null) x {no mask, 6 designed masks} for datetime/timedelta/float32; "
                  "float n=5 (first code in {-1,0}; <=1 null, all null, or 2 nulls touching the first/last row; masks none/alternate/first row dropped) and n=6 (<=1 null or all; masks none/alternate). "
                  "P (public GroupBy.cum*, labels over {null,a,b}; both skip_na settings and the four methods on every case, last-value-vs-GroupBy.sum/min/max/size on every 3rd): every label sequence of n<=4 rows for float/int/datetime/timedelta values "
                  "(n<=3 for bool/float32/int32, n<=6 for float with first label in {null,a} for n>=5) x keys {float ndarray, str ndarray, float Arrow ChunkedArray in 2 and (n>=4) 3 chunks} x null patterns {none, each single null, first two, all} without mask "
                  "+ {no null, first null} x masks {alternate, first dropped, last dropped} on float-ndarray keys, 2-3 (null pattern, mask) combinations on the other key kinds and for n>=5; values as ndarray or (float, datetime) pandas Series; "
                  "two 1,000,000-row cases (float and int64 values; keys factorised in chunks); seeded random cases up to 24 rows with 3 labels",
         "thorough": "as quick with K exhaustive to n=4 for every class and n=5 for float (other classes n=5 pruned, float pruned to n=7), P full table to n=4 for every class (n=5 thinned, float thinned to n=7), a third 1,000,000-row case with null keys, random cases up to 64 rows"}
RULE = "a case = (level K/P, codes or labels, key kind/layout, value class, value-null pattern, mask, chunking of the values); both skip_na settings and all four operations run on each case; distinct = distinct canonical JSON; non-trivial = two groups, or a null key, or a null value, or a mask"
ASSUMPTIONS = ["A-real: float sums compared with relative tolerance 1e-9 (1e-6 for float32); every other class is compared exactly",
               "A-int64: the running sums of the generated values fit 64 bits (one value near 2^62 per case, the others near 2^53)",
               "masks are boolean arrays (the documented mask type of the cumulative methods); other mask kinds are C05's business",
               "an empty sum is 0 (the statement's 'sum of the non-null values' of a prefix without non-null values)",
               "BOUNDED: the glue between the public methods and the proved kernel (_apply_cumulative dtype handling and null-key post-fill, _apply_rolling_or_cumulative_func, _unify_group_key_chunks, Series construction) is checked only within the stated scope"]
REQUIRED_CONTRACTS = {"numba._cumulative_reduce": 1, "numba._apply_cumulative": 1}
EXPLANATION = ("Modular: the prefix-fold postcondition of _cumulative_reduce (generic in the step function, incl. the target[-1] read, the masked carry-forward and untouched null-key rows) and the ScalarFuncs steps are proof obligations of the P tier; "
               "L-lastcum links the last cumulative value to the group fold. The Python around the kernel - _apply_cumulative (target dtype, null-key post-fill, restoration of datetime/timedelta), cumsum/cummin/cummax/cumcount, "
               "GroupBy._apply_rolling_or_cumulative_func (chunked keys unified first, argument binding with ngroups+1, Series construction) - is decided by run-time postconditions taken from the statement over a bounded-exhaustive scope (bounded, not proved).")
BUDGET = {"quick": 90, "thorough": 500}
UNC = "<unconstrained>"
OPS = ("sum", "min", "max", "count")


# ----------------------------------------------------------------------------- values (position-tagged, beyond float64's exact range where the class allows)
def make_values(vkind, n, nullpat=None):
    """-> (numpy array, logical values: None = null; temporal values as integer nanoseconds)"""
    nullpat = list(nullpat) if nullpat else [False] * n
    if vkind == "int":        # one value near 2^62, the rest near +-2^53 (odd): a float64 accumulator cannot hold any prefix sum exactly
        vals = [(2 ** 62 + 3) if i == 1 else (-(2 ** 53 + 5 + 2 * i) if i % 3 == 2 else 2 ** 53 + 1 + 2 * i + 8 * ((i * 5) % 3)) for i in range(n)]
        return np.array(vals, dtype=np.int64), vals
    if vkind == "int32":      # prefix sums leave the int32 range after two rows
        vals = [(-(2 ** 30 + 7 + i) if i % 3 == 2 else 2 ** 30 + 1 + 3 * i + 16 * ((i * 5) % 3)) for i in range(n)]
        return np.array(vals, dtype=np.int32), vals
    if vkind == "timedelta":  # +-(100..400 days) in ns: beyond 2^53, odd nanoseconds
        vals = [None if nullpat[i] else (((i * 5) % 7) * 50 - 140) * 86_400_000_000_000 + 2 * i + 1 for i in range(n)]
        return np.array([MIN_INT if x is None else x for x in vals], dtype=np.int64).view("m8[ns]"), vals
    if vkind == "datetime":
        base = pd.Timestamp("2001-03-01").value
        vals = [None if nullpat[i] else base + ((i * 5) % 7) * 86_400_000_000_000 + 2 * i + 1 for i in range(n)]
        return np.array([MIN_INT if x is None else x for x in vals], dtype=np.int64).view("M8[ns]"), vals
    v, vals = C.make_values(vkind, n, nullpat)
    return v, vals


def decode(res):
    """library result (ndarray / Series) -> logical values (None = null; temporal as integer ns)"""
    a = res.to_numpy() if hasattr(res, "to_numpy") else np.asarray(res)
    k = a.dtype.kind
    if k in "mM": return [None if x == MIN_INT else int(x) for x in a.astype(f"{k}8[ns]").view("i8")]
    if k == "f": return [None if np.isnan(x) else float(x) for x in a]
    if k in "iu": return [int(x) for x in a]
    if k == "b": return [bool(x) for x in a]
    return [None if C.is_null(x) else x for x in a]


def agree(got, exp, vkind):
    if exp is None: return got is None or (isinstance(got, int) and not isinstance(got, bool) and got == MIN_INT)
    if got is None: return False
    if vkind in ("float", "float32"):
        return abs(float(got) - float(exp)) <= (1e-9 if vkind == "float" else 1e-6) * max(1.0, abs(float(exp)))
    if isinstance(got, float): return False if got != int(got) else int(got) == int(exp)       # a float where an exact class is expected: dtype clause reports it; value must still match exactly
    return int(got) == int(exp)


# ----------------------------------------------------------------------------- the specification (from the statement)
def spec_cum(op, groups, vals, selected, skip_na):
    """groups[r]: hashable group of row r or None (null key); selected: set of rows the mask keeps.  -> list, UNC where the statement says nothing"""
    out = [UNC] * len(groups); prefix = {}
    for r, g in enumerate(groups):
        if g is None or r not in selected: continue
        h = prefix.setdefault(g, []); h.append(vals[r])
        nn = [x for x in h if x is not None]
        if op == "count": out[r] = len(h) - 1
        elif op == "sum": out[r] = (sum(nn) if nn else 0) if (skip_na or len(nn) == len(h)) else None
        elif skip_na or len(nn) == len(h): out[r] = (min(nn) if op == "min" else max(nn)) if nn else None
    return out


# ----------------------------------------------------------------------------- cases
DESIGNED_MASKS = {"alt": lambda n: [i % 2 == 0 for i in range(n)], "nofirst": lambda n: [i != 0 for i in range(n)], "nolast": lambda n: [i != n - 1 for i in range(n)],
                  "alt1": lambda n: [i % 2 == 1 for i in range(n)], "mid": lambda n: [0 < i < n - 1 for i in range(n)], "ends": lambda n: [i in (0, n - 1) for i in range(n)], "none": lambda n: [False] * n}


def _pats(vkind, n, full):
    if not C.nullable(vkind): return [[False] * n]
    if full: return [list(p) for p in itertools.product([False, True], repeat=n)]
    return [list(p) for p in itertools.product([False, True], repeat=n) if sum(p) <= 2 or all(p)]


def _few_pats(vkind, n):
    if not C.nullable(vkind) or n == 0: return [[False] * n]
    out = [[False] * n] + [[i == j for i in range(n)] for j in range(n)]
    if n >= 2: out += [[i < 2 for i in range(n)], [True] * n]
    return [p for i, p in enumerate(out) if p not in out[:i]]


def _cases_k(tier, only=None):
    big = tier == "thorough"
    for n in range(0, (7 if big else 6) + 1):
        for vkind in VKINDS:
            if only is not None and not ({shard_class({"lvl": "K", "vkind": vkind, "vsplit": x}) for x in (None, 1)} & only): continue
            full = n <= 3 or (n == 4 and (vkind == "float" or big)) or (n == 5 and big and vkind == "float")
            if not full and n > (5 if big else 4) and vkind != "float": continue
            for codes in itertools.product([-1, 0, 1], repeat=n):
                if n >= 5 and codes[0] > 0: continue               # symmetry cut at the larger sizes
                pats = _pats(vkind, n, full)
                if not full and (n >= 6 or vkind != "float"): pats = [p for p in pats if sum(p) <= 1 or all(p)]
                if full or not C.nullable(vkind): masks = [None] + [list(m) for m in itertools.product([False, True], repeat=n)]
                elif n <= 4 or big: masks = [None] + [f(n) for f in DESIGNED_MASKS.values()][:6]
                else: masks = [None] + [DESIGNED_MASKS[k](n) for k in (("alt", "nofirst") if n == 5 else ("alt",))]
                if not full and not big and n == 5: pats = [p for p in pats if sum(p) <= 1 or all(p) or (sum(p) == 2 and p[0] + p[-1] >= 1)]
                for pi, pat in enumerate(pats):
                    for j, m in enumerate(masks):
                        vs = n // 2 if (vkind == "float" and n >= 2 and (j + pi + sum(codes)) % 6 == 0) else None      # values as a 2-chunk Arrow array (read-only chunks: their own kernel specialisations)
                        yield {"lvl": "K", "codes": list(codes), "vkind": vkind, "nullpat": pat, "mask": m, "vsplit": vs, "ng": 2 + n % 2, "red": (j + pi) % 2 == 0}


def _layouts(n, kkind):
    if kkind != "float": return ["contig"]
    return ["contig"] + (["chunk2"] if n >= 2 else []) + (["chunk3"] if n >= 4 else [])


THIN_P = ("bool", "float32", "int32")      # classes whose public-level glue is the same as float/int: a thin slice at the public level, the full table at the kernel level


def _cases_p(tier, only=None):
    big = tier == "thorough"
    for n in range(1, (7 if big else 6) + 1):
        for vkind in VKINDS:
            fl = vkind == "float"; thin = vkind in THIN_P and not big
            if n > (5 if big else (3 if thin else 4)) and not fl: continue
            small = n <= 3 or (n == 4 and (fl or big))          # the full combination table
            for keys in itertools.product([None, 0, 1], repeat=n):
                if n >= 5 and keys[0] == 1: continue
                for kkind in ("float", "str"):
                    if kkind == "str" and (n > 4 or thin): continue
                    for layout in _layouts(n, kkind):
                        if only is not None and shard_class({"lvl": "P", "vkind": vkind, "layout": layout}) not in only: continue
                        if not small and not big and layout == ("chunk3" if n == 4 else "chunk2"): continue
                        pats = _few_pats(vkind, n)
                        if small and kkind == "float" and not thin and (layout == "contig" or n <= 3 or big):
                            combos = [(pi, None) for pi in range(len(pats))] + ([(0, mn) for mn in ("alt", "nofirst", "nolast")] + [(min(1, len(pats) - 1), "alt")] if n >= 2 else [])
                        elif n >= 5 and not big: combos = ([(0, None)] if n == 5 or layout != "contig" else []) + ([(min(1, len(pats) - 1), "alt")] if layout == "contig" else [])
                        elif layout == "contig": combos = [(0, None), (min(1, len(pats) - 1), None), (0, "alt")]
                        else: combos = [(0, None)] + ([(1, None)] if len(pats) > 1 and n <= 5 else [])
                        for ci, (pi, mname) in enumerate(dict.fromkeys(combos)):
                            yield {"lvl": "P", "keys": list(keys), "kkind": kkind, "layout": layout, "vkind": vkind, "nullpat": pats[pi],
                                   "mask": DESIGNED_MASKS[mname](n) if mname else None, "ser": vkind in ("float", "datetime") and layout == "contig" and ci % 2 == 1, "red": ci % 3 == 0}


def cases(tier, seed, only=None):
    """only: set of shard classes (see shard_class) to generate - a worker asks for its own; None = the whole enumeration"""
    return C.roundrobin(_cases_k(tier, only), _cases_p(tier, only), weights=(8, 1))


def extra_cases(tier, seed):
    out = [{"lvl": "B", "n": 1_000_000, "nullkeys": False, "vkind": "float"}, {"lvl": "B", "n": 1_000_000, "nullkeys": False, "vkind": "int"}]
    if tier == "thorough": out.append({"lvl": "B", "n": 1_000_000, "nullkeys": True, "vkind": "float"})
    return out


def random_case(rnd, tier, only=None):
    for _ in range(200):
        c = _random_case(rnd, tier)
        if only is None or shard_class(c) in only: return c
    return c


def _random_case(rnd, tier):
    n = rnd.randint(5, 64 if tier == "thorough" else 24); vkind = rnd.choice(VKINDS)
    pat = [rnd.random() < 0.3 for _ in range(n)] if C.nullable(vkind) else [False] * n
    mask = rnd.choice([None, [rnd.random() < 0.6 for _ in range(n)]])
    if rnd.random() < 0.5:
        return {"lvl": "K", "codes": [rnd.choice([-1, 0, 1, 2]) for _ in range(n)], "vkind": vkind, "nullpat": pat, "mask": mask, "vsplit": rnd.choice([None, rnd.randrange(0, n + 1)]) if vkind == "float" else None, "ng": rnd.choice([3, 4])}
    kkind = rnd.choice(["float", "str", "float"])
    return {"lvl": "P", "keys": [rnd.choice([None, 0, 1, 2]) for _ in range(n)], "kkind": kkind, "layout": rnd.choice(["contig", "chunk2", "chunk3"]) if kkind == "float" else "contig",
            "vkind": vkind, "nullpat": pat, "mask": mask, "ser": rnd.random() < 0.3}


def nontrivial(case):
    if case["lvl"] == "B": return True
    ks = case["codes"] if case["lvl"] == "K" else [(-1 if k is None else k) for k in case["keys"]]
    return len({k for k in ks if k >= 0}) >= 2 or any(k < 0 for k in ks) or any(case["nullpat"]) or case["mask"] is not None


# ----------------------------------------------------------------------------- checking
def _dtype_ok(op, vkind, in_dtype, out_dtype):
    if op == "count": return out_dtype.kind in "iu"
    if vkind in ("datetime", "timedelta"): return out_dtype == in_dtype
    if vkind in ("int", "int32"): return out_dtype.kind in "iu" and (op != "sum" or out_dtype.itemsize == 8)
    if vkind == "bool": return out_dtype.kind in "iub" and (op != "sum" or (out_dtype.kind in "iu" and out_dtype.itemsize == 8))
    return out_dtype.kind == "f"


def _check_rows(sess, fn, op, skip_na, got, exp, vkind):
    bad = [(r, got[r], e) for r, e in enumerate(exp) if e is not UNC and not agree(got[r], e, "int" if op == "count" else vkind)]
    if not bad: return
    r, g, e = bad[0]
    if op == "count": clause = "cumcount == number of earlier selected rows of the group"
    elif op == "sum" and not skip_na and e is None: clause = "skip_na=False: a null makes the running sum null from there on"
    elif op == "sum": clause = "cumsum == sum of the non-null values of the group's selected rows up to and including the row"
    else: clause = f"cum{op} == {op} of the non-null values of the group's selected rows up to and including the row"
    sess.record("post", fn, clause, {"row": r, "got": str(g), "expected": str(e), "all_got": str(got), "all_expected": str([("-" if x is UNC else x) for x in exp]), "skip_na": skip_na})


def _ops_for(vkind, case):
    ops = [o for o in OPS if not (vkind == "datetime" and o == "sum")]       # a sum of timestamps has no meaning
    if "op" in case: ops = [o for o in ops if o == case["op"]]
    return ops


def _skips(op, case):
    if op == "count": return [True]
    return [case["skip_na"]] if "skip_na" in case else [True, False]


def _check_kernel(sess, case):
    from groupby_lib.groupby import numba as gn
    import pyarrow as pa
    codes = np.array(case["codes"], dtype=np.int64); n = len(codes); vkind = case["vkind"]; ng = max(case.get("ng", 2), int(codes.max()) + 1 if n else 0)
    v, vals = make_values(vkind, n, case["nullpat"]); m = None if case["mask"] is None else np.array(case["mask"], dtype=bool)
    selected = set(range(n)) if m is None else {i for i in range(n) if m[i]}
    groups = [None if c < 0 else int(c) for c in codes]; calls = 0
    vs = case.get("vsplit")
    varg = v if vs is None else pa.chunked_array([pa.array(v[:vs]), pa.array(v[vs:])])
    v0, m0, c0 = v.tobytes(), (None if m is None else m.tobytes()), codes.tobytes()
    for op in _ops_for(vkind, case):
        for skip_na in _skips(op, case):
            sess.current_case = dict(case, op=op, skip_na=skip_na); fn = f"numba.cum{op}"; calls += 1
            try:
                res = gn.cumcount(codes, None, ng, m) if op == "count" else getattr(gn, f"cum{op}")(codes, varg, ng, m, skip_na)
            except Exception as ex:
                sess.record("raises", fn, f"valid kernel inputs must not fail: {type(ex).__name__}", str(ex)[:200]); continue
            res = np.asarray(res)
            if res.shape != (n,): sess.record("post", fn, "one output row per input row", {"shape": str(res.shape), "n": n}); continue
            if not _dtype_ok(op, vkind, v.dtype, res.dtype):
                sess.record("post", fn, "integer and temporal inputs are accumulated without a floating-point detour: result dtype", {"in": str(v.dtype), "out": str(res.dtype)})
            _check_rows(sess, fn, op, skip_na, decode(res), spec_cum(op, groups, vals, selected, skip_na), vkind)
            if skip_na and n and case.get("red", True):       # (last): last cumulative value of each group == the real group reduction
                try:
                    red = gn.group_size(codes, ng, mask=m, n_threads=1) if op == "count" else getattr(gn, f"group_{op}")(codes, v, ng, mask=m, n_threads=1)
                except Exception: red = None
                if red is not None:
                    red = decode(np.asarray(red)); got = decode(res); calls += 1
                    for g in sorted({g for r, g in enumerate(groups) if g is not None and r in selected}):
                        last = max(r for r in selected if groups[r] == g); lhs = got[last] + 1 if op == "count" else got[last]
                        if vkind == "bool" and op in ("min", "max"): lhs = bool(lhs)
                        if not agree(lhs, red[g], "int" if op == "count" else vkind) and not (lhs is None and red[g] is None):
                            sess.record("post", fn, "last cumulative value of a group == the group reduction (numba.group_*)", {"group": g, "cumulative": str(lhs), "reduction": str(red[g])}); break
    if v.tobytes() != v0 or codes.tobytes() != c0 or (m is not None and m.tobytes() != m0):
        sess.record("frame", "numba._apply_cumulative", "group key, values and mask are not written to", {"values_changed": v.tobytes() != v0})
    return calls


def _make_keys(case):
    from .c01 import make_keys
    import pyarrow as pa
    k, labs = make_keys(case["kkind"], case["keys"]); n = len(labs); layout = case.get("layout", "contig")
    if layout == "chunk2": cuts = [n // 2]
    elif layout == "chunk3": cuts = [n // 3, (2 * n) // 3]
    else: return k, labs
    b = [0] + cuts + [n]
    return pa.chunked_array([pa.array(k[b[i]:b[i + 1]], type=pa.float64()) for i in range(len(b) - 1)]), labs


def _check_public(sess, case):
    from groupby_lib.groupby import GroupBy
    vkind = case["vkind"]; n = len(case["keys"])
    k, labs = _make_keys(case); v, vals = make_values(vkind, n, case["nullpat"])
    m = None if case["mask"] is None else np.array(case["mask"], dtype=bool)
    selected = set(range(n)) if m is None else {i for i in range(n) if m[i]}
    idx = pd.Index([100 + 7 * i for i in range(n)]) if case.get("ser") else None
    varg = pd.Series(v, index=idx, name="val") if idx is not None else v
    v0, m0 = v.tobytes(), (None if m is None else m.tobytes()); calls = 0
    sess.current_case = case
    try:
        with contextlib.redirect_stdout(io.StringIO()): gb = GroupBy(k)
    except Exception as ex:
        sess.record("raises", "GroupBy.__init__", f"valid group keys must not be rejected: {type(ex).__name__}", str(ex)[:200]); return 1
    # the real reductions first: on chunked keys the first cumulative call unifies the chunks in place
    reds = {}
    for op in (_ops_for(vkind, case) if case.get("red", True) else []):
        try:
            with contextlib.redirect_stdout(io.StringIO()):
                r = gb.size(mask=m) if op == "count" else getattr(gb, op)(v, mask=m)
            reds[op] = dict(zip(list(r.index), decode(r))); calls += 1
        except Exception: pass
    for op in _ops_for(vkind, case):
        for skip_na in _skips(op, case):
            sess.current_case = dict(case, op=op, skip_na=skip_na); fn = f"GroupBy.cum{op}"; calls += 1
            try:
                with contextlib.redirect_stdout(io.StringIO()):
                    res = gb.cumcount(mask=m) if op == "count" else getattr(gb, f"cum{op}")(varg, mask=m, skip_na=skip_na)
            except Exception as ex:
                sess.record("raises", fn, f"aligned inputs must not be rejected / must not fail: {type(ex).__name__}", str(ex)[:200]); continue
            if not isinstance(res, pd.Series) or len(res) != n:
                sess.record("post", fn, "one output row per input row (a Series aligned with the input)", {"type": type(res).__name__, "len": len(res) if hasattr(res, "__len__") else None, "n": n}); continue
            if not _dtype_ok(op, vkind, v.dtype, res.to_numpy().dtype):
                sess.record("post", fn, "integer and temporal inputs are accumulated without a floating-point detour: result dtype", {"in": str(v.dtype), "out": str(res.dtype)})
            got = decode(res)
            _check_rows(sess, fn, op, skip_na, got, spec_cum(op, labs, vals, selected, skip_na), vkind)
            if skip_na and op in reds:
                for g in dict.fromkeys(labs[r] for r in sorted(selected) if labs[r] is not None):
                    last = max(r for r in selected if labs[r] == g); lhs = got[last] + 1 if op == "count" else got[last]
                    if g not in reds[op]: continue          # missing label: C01's business
                    if vkind == "bool" and op in ("min", "max"): lhs = bool(lhs)
                    if not agree(lhs, reds[op][g], "int" if op == "count" else vkind) and not (lhs is None and reds[op][g] is None):
                        sess.record("post", fn, f"last cumulative value of a group == the group reduction (GroupBy.{'size' if op == 'count' else op})", {"label": str(g), "cumulative": str(lhs), "reduction": str(reds[op][g])}); break
    if v.tobytes() != v0 or (m is not None and m.tobytes() != m0):
        sess.record("frame", "GroupBy._apply_rolling_or_cumulative_func", "values and mask are not written to", {"values_changed": v.tobytes() != v0})
    return calls


def _check_big(sess, case):
    """size boundary: >= 1,000,000 rows -> keys factorised in chunks, unified before the kernel runs; vectorised oracle (per label: numpy prefix ops on the label's rows)"""
    from groupby_lib.groupby import GroupBy
    n = case["n"]; rs = np.random.RandomState(12345)
    lab = rs.randint(0, 3, n).astype(float); lab[:4] = [2.0, 0.0, 1.0, 2.0]            # not monotonic from the start
    if case["nullkeys"]: lab[rs.rand(n) < 0.1] = np.nan; lab[:4] = [2.0, 0.0, np.nan, 1.0]
    if case["vkind"] == "float":
        v = (rs.randint(-8, 9, n) * 0.25).astype(float); v[rs.rand(n) < 0.2] = np.nan
    else:
        v = rs.randint(-5, 6, n).astype(np.int64); v[::50_000] += 2 ** 53 + 1; v[7] = 2 ** 62 + 3       # 20 values beyond 2^53, one near 2^62: the prefix sums fit 64 bits
    calls = 0; sess.current_case = case
    try:
        with contextlib.redirect_stdout(io.StringIO()): gb = GroupBy(lab)
    except Exception as ex:
        sess.record("raises", "GroupBy.__init__", f"valid group keys must not be rejected: {type(ex).__name__}", str(ex)[:200]); return 1
    for op in _ops_for(case["vkind"], case):
        sess.current_case = dict(case, op=op); fn = f"GroupBy.cum{op}"; calls += 1
        try:
            with contextlib.redirect_stdout(io.StringIO()):
                res = gb.cumcount() if op == "count" else getattr(gb, f"cum{op}")(v)
            res = res.to_numpy()
        except Exception as ex:
            sess.record("raises", fn, f"aligned inputs must not be rejected / must not fail: {type(ex).__name__}", str(ex)[:200]); continue
        if len(res) != n: sess.record("post", fn, "one output row per input row (a Series aligned with the input)", {"len": len(res)}); continue
        for g in (0.0, 1.0, 2.0):
            rows = np.nonzero(lab == g)[0]; x = v[rows]
            if op == "count": e = np.arange(len(rows))
            elif v.dtype.kind == "f":
                isn = np.isnan(x); seen = np.cumsum(~isn) > 0
                if op == "sum": e = np.cumsum(np.where(isn, 0.0, x))
                else:
                    e = (np.fmin if op == "min" else np.fmax).accumulate(x); e[~seen] = np.nan
            else: e = np.cumsum(x) if op == "sum" else (np.minimum if op == "min" else np.maximum).accumulate(x)
            gotg = res[rows]
            ok = np.array_equal(gotg, e) if v.dtype.kind != "f" or op == "count" else bool(np.all((np.isnan(gotg) & np.isnan(e)) | (np.abs(gotg - e) <= 1e-9 * np.maximum(1.0, np.abs(e)))))
            if not ok:
                w = int(np.nonzero(~((gotg == e) | ((gotg != gotg) & (e != e))))[0][0]) if len(rows) else -1
                clause = "cumcount == number of earlier selected rows of the group" if op == "count" else (f"cum{op} == {op} of the non-null values of the group's selected rows up to and including the row" if op != "sum" else "cumsum == sum of the non-null values of the group's selected rows up to and including the row")
                sess.record("post", fn, clause, {"label": g, "row": int(rows[w]) if w >= 0 else None, "got": str(gotg[w]) if w >= 0 else None, "expected": str(e[w]) if w >= 0 else None}); break
    return calls


def check_case(sess, case):
    if case["lvl"] == "K": return _check_kernel(sess, case)
    if case["lvl"] == "B": return _check_big(sess, case)
    return _check_public(sess, case)


# ----------------------------------------------------------------------------- sidecar contracts on the real functions
def install(sess):
    def pre_cr(group_key, values, reduce_func, ngroups, target, mask=None):
        n = len(group_key); tot = sum(len(a) for a in values)
        if tot != n: return f"total length of the value chunks ({tot}) != len(group_key) ({n})"
        if len(target) != n: return f"len(target) ({len(target)}) != len(group_key) ({n})"
        if n and int(np.max(group_key)) >= ngroups: return "group code >= ngroups (out-of-bounds write into the per-group state)"
        if mask is not None and (len(mask) != n or np.asarray(mask).dtype.kind != "b"): return "mask must be a boolean array of the length of the group key"
    def post_cr(out, group_key, values, reduce_func, ngroups, target, mask=None):
        res, has_null = out
        if bool(has_null) != bool(len(group_key) and int(np.min(group_key)) < 0): return "has_null_key flag != (some code is negative)"
        if len(res) != len(group_key): return "one output slot per row"
    sess.wrap("groupby_lib.groupby.numba", "_cumulative_reduce", requires=pre_cr, ensures=post_cr)
    def post_ac(out, operation, group_key, values, ngroups, mask=None, skip_na=True, use_py_func=False):
        if len(out) != len(group_key): return "one output row per input row"
    sess.wrap("groupby_lib.groupby.numba", "_apply_cumulative", ensures=post_ac)


# ----------------------------------------------------------------------------- sharding by kernel specialisation
# Every (value dtype x step function x mask/no mask x writable/read-only chunks x code dtype) combination is a separate numba specialisation of _cumulative_reduce /
# _group_by_reduce; their function-typed argument defeats numba's disk cache, so each process compiles what it uses (~0.4 s each, ~150 s for the whole matrix).
# The generic driver deals cases out by index: each of the 16 workers would compile the whole matrix. Workers therefore specialise: a case belongs to a shard class
# (dtype class, level), each class is served by fixed slots, the worker inside a class is chosen by a stable hash of the case. Shards are disjoint and their union is
# the whole enumeration. Built on rtc.core.generic_worker (core._worker calls mod.worker when the module defines one).
SLOTS = ["float-K", "float-K", "float-K", "float-Kv", "float-Pc", "float-Pc", "float-Px", "float-Px", "i64-K", "int-P", "datetime-P", "datetime-P", "timedelta-P", "timedelta-P", "small", "float32"]


def shard_class(case):
    vk = case["vkind"]; lvl = case["lvl"]
    if lvl == "B": return "float-Px" if vk == "float" else "int-P"
    if vk == "float": return ("float-Pc" if case.get("layout", "contig") == "contig" else "float-Px") if lvl == "P" else ("float-Kv" if case.get("vsplit") is not None else "float-K")
    if vk in ("int", "datetime", "timedelta"): return "i64-K" if lvl == "K" else vk + "-P"
    return "float32" if vk == "float32" else "small"          # bool and int32


def owner(case, nprocs, slots=None, shard_class_=None):
    import zlib, json
    slots = slots or SLOTS; cls = (shard_class_ or shard_class)(case)
    mine = [j for j, c in enumerate(slots) if c == cls]
    return mine[zlib.crc32(json.dumps(case, sort_keys=True, default=str).encode()) % len(mine)] % nprocs


def affinity_worker(mod, rank, nprocs, tier, seed, budget):
    """mod provides SLOTS, shard_class(case), cases(tier, seed, only), random_case(rnd, tier, only), extra_cases(tier, seed)"""
    import types
    from rtc import core
    only = {c for j, c in enumerate(mod.SLOTS) if j % nprocs == rank}
    def deal(gen):          # place this worker's cases on the indices the generic driver gives to this rank
        for case in gen:
            if owner(case, nprocs, mod.SLOTS, mod.shard_class) != rank: continue
            for j in range(nprocs): yield case if j == rank else None
    proxy = types.SimpleNamespace(PROP=mod.PROP, install=mod.install, check_case=mod.check_case, nontrivial=mod.nontrivial,
                                  cases=lambda t, s: deal(mod.cases(t, s, only)), extra_cases=lambda t, s: deal(mod.extra_cases(t, s)),
                                  random_case=lambda rnd, t: mod.random_case(rnd, t, only))
    return core.generic_worker(proxy, rank, nprocs, tier, seed, budget)


def worker(rank, nprocs, tier, seed, budget):
    import sys
    return affinity_worker(sys.modules[__name__], rank, nprocs, tier, seed, budget)
