"""./check selftest — self-test of the verifier (run under /venv/bin/python via ./check, which re-executes this file under python3-vt).

1. Mutants: small semantic edits of the kernels, applied to a scratch copy of /repo's sources (temp dir outside /repo and /verif, removed
   afterwards). Every mutant must make at least one obligation of the named function fail (`sat` or `unknown`); a mutant that still
   verifies means the engine or the contract is too weak, and fails the self-test.
2. Must-fail control: for every function instantiation the obligation `False` under the hypotheses of a postcondition path must NOT be
   discharged (done on every run by the cover check; repeated here with a longer budget).
3. Determinism: the SMT text generated for a function is byte-identical across two generations.
"""
import os, sys, shutil, tempfile, json, subprocess, hashlib

ROOT = os.path.dirname(os.path.abspath(__file__))
REPO = os.environ.get("VERIF_REPO", "/repo")

N = "groupby_lib/groupby/numba.py"; E = "groupby_lib/emas.py"; FZ = "groupby_lib/groupby/factorization.py"; CO = "groupby_lib/groupby/core.py"; NO = "groupby_lib/nanops.py"; U = "groupby_lib/util.py"
# (id, file, old, new, occurrence index or None=must be unique, function filter, what it breaks)
MUTANTS = [
    ("gbr-guard", N, "            if key < 0:\n                continue\n            target[key], count[key] = reduce_func(target[key], values[i], count[key])\n    else:", "            if key < -1:\n                continue\n            target[key], count[key] = reduce_func(target[key], values[i], count[key])\n    else:", None, "_group_by_reduce", "null-key rows reach the accumulator (negative index wraps)"),
    ("gbr-wrong-slot", N, "            target[key], count[key] = reduce_func(target[key], values[i], count[key])\n    else:", "            target[key], count[key] = reduce_func(target[0], values[i], count[key])\n    else:", None, "_group_by_reduce", "reads another group's accumulator"),
    ("nth-ge", N, "        if seen[k] == n:\n            assert out[k] == -1", "        if seen[k] >= n:\n            assert out[k] == -1", None, "_find_nth", "later rows overwrite the n-th"),
    ("nth-int16", N, "    out = np.full(ngroups, -1, dtype=np.int64)\n    seen = np.zeros(ngroups, dtype=np.int64)", "    out = np.full(ngroups, -1, dtype=np.int64)\n    seen = np.zeros(ngroups, dtype=np.int16)", None, "_find_nth", "16-bit counter wraps"),
    ("nth-mask", N, "        if masked and not mask[i]:\n            continue\n        if seen[k] == n:", "        if masked and mask[i]:\n            continue\n        if seen[k] == n:", None, "_find_nth", "mask inverted"),
    ("nth-back", N, "        n = -n - 1\n", "        n = -n\n", None, "_find_nth[backward", "nth from the end off by one"),
    ("firstn-norev", N, "    if not forward:\n        out = out[:, ::-1]\n", "", None, "_find_first_or_last_n[backward", "last-n rows returned in reverse order"),
    ("firstn-lt", N, "        if j < n:\n            out[k, j] = i", "        if j <= n:\n            out[k, j] = i", None, "_find_first_or_last_n", "writes column n (out of bounds / wrap)"),
    ("cum-lastseen", N, "            group_last_seen[key] = i\n", "            group_last_seen[key] = i - 1\n", 0, "_cumulative_reduce", "running value read from the wrong row"),
    ("roll-pos", N, "            group_positions[key] = (pos + 1) % window", "            group_positions[key] = pos + 1", None, "_rolling_sum_or_mean_1d", "buffer position runs off the window"),
    ("roll-nodec", N, "                    group_sums[key] -= old_val\n                    group_non_null[key] -= 1", "                    group_sums[key] -= old_val", None, "_rolling_sum_or_mean_1d", "non-null counter never decremented"),
    ("roll-full", N, "            group_full = group_n_seen[key] >= window\n            if group_full:\n                old_val", "            group_full = group_n_seen[key] > window\n            if group_full:\n                old_val", None, "_rolling_sum_or_mean_1d", "window one row too long"),
    ("roll-mean-div0", N, "                    if group_non_null[key] > 0:\n                        out[i] = group_sums[key] / group_non_null[key]", "                    if True:\n                        out[i] = group_sums[key] / group_non_null[key]", None, "_rolling_sum_or_mean_1d[float,chunked,mask=bool,mean", "min_periods=0: empty window divides by zero (numba raises)"),
    ("rmm-nullskip", N, "        if is_null(v):\n            continue\n        if want_max and v >= best", "        if want_max and v >= best", None, "min_or_max_and_position[int,want_max=False]", "integer null wins the minimum (the pinned C09 defect)"),
    ("rmm-improve", N, "                    or (want_max and val >= cur_best)\n", "                    or (want_max and val <= cur_best)\n", None, "_rolling_max_or_min_1d[float,chunked,mask=None,max", "running max replaced by smaller values"),
    ("rmm-norecalc", N, "            if group_full and need_recalc:\n", "            if group_full and need_recalc and val_is_null:\n", None, "_rolling_max_or_min_1d[float,chunked,mask=None,max", "stale extremum survives the eviction of its row"),
    ("rmm-nodec", N, "                if not is_null(to_remove):\n                    group_non_null[key] -= 1\n\n            group_buffers[key, pos] = val\n            # Add new value", "                pass\n\n            group_buffers[key, pos] = val\n            # Add new value", None, "_rolling_max_or_min_1d[float,chunked,mask=None,min", "non-null counter never decremented"),
    ("shift-order", N, "            group_buffers[key, pos] = val\n            # Update position\n            group_buffer_pos[key] = (pos + 1) % window", "            group_buffers[key, pos] = val\n            # Update position\n            group_buffer_pos[key] = (pos + 2) % window", None, "_rolling_shift_or_diff_1d", "buffer position skips a slot"),
    ("diff-sign", N, "out[i] = val - group_buffers[key, pos]", "out[i] = group_buffers[key, pos] - val", None, "_rolling_shift_or_diff_1d[int", "difference reversed"),
    ("shift-empty", N, "    group_buffers = np.full((ngroups, window), null_value)\n", "    group_buffers = np.empty((ngroups, window))\n", 2, "_rolling_shift_or_diff_1d[opaque,chunked,mask=None", "buffers of another element type (float64 detour loses nanoseconds)"),
    ("wcs-last", FZ, "    if codes[-1] == -1:\n        return -1\n", "", None, "_weight_code_sum", "null in the last key not propagated"),
    ("mono-nan", FZ, "        if not x >= prev:\n", "        if x < prev:\n", None, "_monotonic_factorization[float", "a NaN inside a sorted run inherits its predecessor's code"),
    ("mono-emptychunk", FZ, "        while cur_arr_pos == len(arr):\n", "        if cur_arr_pos == len(arr):\n", None, "_monotonic_factorization", "an empty chunk is read out of bounds"),
    ("mono-firstnull", FZ, "    if arr[0] != arr[0]:\n        # a null first key: no prefix is monotonic (and nulls get no label)\n        return 0, codes, labels[:0]\n", "", None, "_monotonic_factorization[float", "a null first key gets a label"),
    ("mono-newlabel", FZ, "        elif x > prev:\n            labels[n_labels] = x\n", "        elif x >= prev:\n            labels[n_labels] = x\n", None, "_monotonic_factorization", "equal keys get distinct labels"),
    ("emat-seen", E, "        if seen[k]:\n", "        if last_seen_times[k] > 0:\n", None, "_ema_grouped_timed", "group-seen test by timestamp sign"),
    ("emat-nan0", E, "    if np.isnan(arr[0]):\n        out[0] = np.nan\n        residual = 0.0\n        residual_weights = 0.0\n    else:\n        residual = out[0] = arr[0]\n        residual_weights = 1.0\n", "    residual = out[0] = arr[0]\n    residual_weights = 1.0\n", None, "_ema_time_weighted", "leading NaN poisons the sums"),
    ("emaa-decay", E, "        residual *= beta\n        residual_weights *= beta\n\n    return out", "        residual *= beta\n\n    return out", None, "_ema_adjusted", "denominator not decayed"),
    ("cf-tracker", FZ, None, None, None, "_combine_factorizations", None),
    ("rap-count", N, "            count = counts[i]", "            count = counts[0]", None, "reduce_array_pair", "count of another group passed to the reducer"),
    ("rap-ycount", N, "        if y_counts is not None and y_counts[i] == 0:\n", "        if y_counts is not None and y_counts[i] < 0:\n", None, "reduce_array_pair[generic,counts=array,y_counts=array", "empty right partials are merged as data"),
    ("comb-nocount", N, "            counts=combined_count if isinstance(combined_count, np.ndarray) else None,\n", "", None, "combine_chunk_results_for_factorized_key", "merge without the accumulated count (the pinned defect)"),
    ("comb-noycount", N, "            y_counts=count if isinstance(count, np.ndarray) else None,\n", "", None, "combine_chunk_results_for_factorized_key", "merge without the per-chunk count (bool/unsigned defect)"),
    ("comb-count", N, "        combined_count = combined_count + count\n", "        combined_count = combined_count + counts[0]\n", None, "combine_chunk_results_for_factorized_key", "wrong count accumulated"),
    ("sf-nanmin", N, "            if next_val < cur_min:\n                cur_min = next_val", "            if next_val > cur_min:\n                cur_min = next_val", None, "ScalarFuncs.nanmin", "comparison flipped"),
    ("sf-first", N, "        elif count:\n            return cur_first, count + 1", "        elif count:\n            return next_val, count + 1", None, "ScalarFuncs.first", "first replaced by last"),
    ("ema-guard", E, "        if k < 0:\n            out[i] = np.nan\n            continue\n        if np.isnan(x) or (masked and not mask[i]):", "        if np.isnan(x) or (masked and not mask[i]):", None, "_ema_grouped[", "null-key rows update the last group"),
    ("ema-decay", E, None, None, None, "_ema_grouped[", None),
    ("sort-off1", CO, "                    indexer[pos] = i\n", "                    indexer[pos] = i + 1\n", None, "_build_group_sorted_indexer_numba", "positions shifted by one"),
    ("momp-ge", N, "        if want_max and v >= best or (not want_max and v <= best):", "        if want_max and v <= best or (not want_max and v <= best):", None, "min_or_max_and_position[float,want_max=True]", "max computed as min"),
    ("nbr-start", NO, "            start = loc + 1\n", "            start = loc\n", None, "_nb_reduce[float,skipna,no", "first non-null element folded twice"),
    ("nbr-skip", NO, "            if is_null(x):\n                continue\n            out = reduce_func(out, x)", "            out = reduce_func(out, x)", None, "_nb_reduce[float,skipna,initial", "nulls not skipped"),
    ("gfnn-not", U, "        if not is_null(x):\n            return i, x\n    return -1, np.nan", "        if is_null(x):\n            return i, x\n    return -1, np.nan", None, "_get_first_non_null[float]", "returns the first null"),
    ("dot-transpose", U, "            out[row] += a[col][row] * b[col]", "            out[row] += a[col][row] * b[row]", None, "_nb_dot", "wrong vector element"),
    ("dot-race", U, "            out[row] += a[col][row] * b[col]", "            out[col] += a[col][row] * b[col]", None, "_nb_dot", "iterations write each other's slots"),
    ("nro-min", U, "        return x if x <= y else y", "        return x if x >= y else y", None, "NumbaReductionOps.min", "min is max"),
    ("gnm-guard", N, "        if key < 0:\n            # null group key: belongs to no group and must not touch group state\n            continue\n", "", None, "group_nearby_members", "null-key rows update the last group"),
    ("ffc-ge", CO, "            if cum_length > start:\n", "            if cum_length >= start:\n", None, "_find_first_chunk_in_slice", "a chunk that ends exactly at the first selected row is taken as the first chunk of the slice"),
    ("ffc-negstart", CO, "            start = len(self) + mask.start\n", "            start = len(self) - mask.start\n", None, "_find_first_chunk_in_slice[start=int", "negative slice start resolved with the wrong sign"),
    ("cik-nooffset", CO, "                    pointer = self._group_key_pointers[first_chunk_in + i]\n", "                    pointer = self._group_key_pointers[i]\n", None, "GroupBy.count_ikey[chunked key,pointers=tables", "a slice mask that starts in a later chunk pairs the key chunks with the pointer tables of the leading chunks"),
    ("cik-assign", CO, "                    count[pointer] += c\n", "                    count[pointer] = c\n", None, "GroupBy.count_ikey[chunked key,pointers=tables", "counts of later chunks overwrite those of earlier ones"),
    ("cik-bound", CO, "                    c = numba_funcs.group_size(chunk, len(pointer), mask=m)\n", "                    c = numba_funcs.group_size(chunk, self.ngroups, mask=m)\n", None, "GroupBy.count_ikey[chunked key,pointers=tables", "local counts sized by the global number of groups (shape mismatch with the pointer table)"),
    ("cm-nooffset", CO, "                    pointer = self._group_key_pointers[first_chunk_in + j]\n", "                    pointer = self._group_key_pointers[j]\n", None, "_apply_gb_func_across_chunked_group_keys::loop", "partials of a sliced chunked key merged through the pointer tables of the leading chunks"),
    ("cm-nocounts", CO, "                    counts=count[pointer],\n", "", None, "_apply_gb_func_across_chunked_group_keys::loop", "merge without the accumulated count: the untouched start value is merged as data"),
    ("cm-noycounts", CO, "                    y_counts=counts_one_value[j][:-1],\n", "", None, "_apply_gb_func_across_chunked_group_keys::loop", "empty partials of a chunk are merged as data"),
    ("cm-nullslot", CO, "                result = result[:-1]  # ignore null group\n", "", None, "_apply_gb_func_across_chunked_group_keys::loop", "the chunk's null-key slot takes part in the merge"),
    ("cm-countassign", CO, "                count[pointer] += counts_one_value[j][:-1]  # ignore null group\n", "                count[pointer] += counts_one_value[0][:-1]  # ignore null group\n", None, "_apply_gb_func_across_chunked_group_keys::loop", "the counts of the first chunk are accumulated for every chunk"),
    ("uni-nullidx", CO, "                has_key = k >= 0\n", "                has_key = k >= -1\n", None, "_unify_group_key_chunks::loop", "a null key indexes the pointer table with -1 and gets the chunk's last label"),
    ("uni-fill", CO, "                codes = np.full(len(k), -1, dtype=np.int64)\n", "                codes = np.full(len(k), 0, dtype=np.int64)\n", None, "_unify_group_key_chunks::loop", "null-key rows get the code of the first label"),
    ("uni-plain", CO, "                codes = np.full(len(k), -1, dtype=np.int64)\n                has_key = k >= 0\n                codes[has_key] = p[k[has_key]]\n", "                codes = p[k]\n", None, "_unify_group_key_chunks::loop", "the pinned defect: the pointer table indexed with every code, -1 included"),
    ("isnull-int", U, "            return x == MIN_INT\n", "            return x <= MIN_INT + 1\n", None, "jit_is_null.is_null#1", "a second integer value is read as null"),
    ("isnull-neg", U, "        out[i] = is_null(arr[i])", "        out[i] = not is_null(arr[i])", None, "arr_is_null", "inverted"),
]


def apply_mutant(tmp, m):
    mid, file, old, new, occ, func, what = m
    path = os.path.join(tmp, file); s = open(path).read()
    if old is None: return None
    c = s.count(old)
    if c == 0: return f"mutant {mid}: anchor text not found (source changed) - skipped"
    if occ is None and c != 1: return f"mutant {mid}: anchor text occurs {c} times - skipped"
    if occ is None: s2 = s.replace(old, new)
    else:
        parts = s.split(old); s2 = old.join(parts[:occ + 1]) + new + old.join(parts[occ + 1:])
    open(path, "w").write(s2); return None


def _gen_hash(args):
    i, mods = args
    sys.path.insert(0, ROOT)
    import importlib
    from pyvc import registry
    for m in mods: importlib.import_module(m)
    g = registry.generate(registry.RECORDS[i], REPO)
    import re
    def norm(text):          # z3 names let-bound sub-terms after internal AST ids (?x223 / $x175): rename them by order of first occurrence
        seen = {}
        return re.sub(r"[?$]x\d+", lambda m: seen.setdefault(m.group(0), f"v{len(seen)}"), text)
    return g["function"], hashlib.sha256("".join(norm(j["smt2"]) for j in g["jobs"]).encode()).hexdigest()


def main():
    if "z3" not in sys.modules:
        try: import z3  # noqa
        except ImportError:
            return subprocess.run(["python3-vt", os.path.abspath(__file__)] + sys.argv[1:], cwd=ROOT).returncode
    sys.path.insert(0, ROOT)
    from pyvc import registry
    mods = ["contracts.kernels", "contracts.lemmas"]
    fails = []; rows = []
    tmp = tempfile.mkdtemp(prefix="pyvc_selftest_")
    try:
        want = [a for a in sys.argv[1:] if a != "selftest"]            # optional: only the named mutants
        for m in MUTANTS:
            mid, file, old, new, occ, func, what = m
            if old is None or (want and mid not in want): continue
            shutil.rmtree(os.path.join(tmp, "groupby_lib"), ignore_errors=True)
            shutil.copytree(os.path.join(REPO, "groupby_lib"), os.path.join(tmp, "groupby_lib"), ignore=shutil.ignore_patterns("__pycache__", "*.nbi", "*.nbc"))
            skip = apply_mutant(tmp, m)
            if skip: rows.append({"mutant": mid, "status": "skipped", "detail": skip}); print(skip); continue
            rep = registry.run_all(tmp, mods, only=[func], timeout=15000, retries=(), covers=False, lemmas=False)
            failed = [r["name"] for f in rep["functions"] for r in f["failed"]]
            unsup = [f["function"] for f in rep["functions"] if "unsupported" in f or "stale" in f]
            status = "killed" if failed else ("demoted" if unsup and not rep["obligations"] else "SURVIVED")
            rows.append({"mutant": mid, "function": func, "what": what, "status": status, "failed_obligations": failed[:4], "obligations": rep["obligations"]})
            print(f"mutant {mid:14s} {status:9s} {func:46s} {failed[:2]}")
            if status == "SURVIVED": fails.append(f"mutant {mid} ({what}) still verifies: {rep['discharged']}/{rep['obligations']}")
    finally:
        shutil.rmtree(tmp, ignore_errors=True)
    # determinism of generation: the same record generated in two fresh processes gives byte-identical SMT text
    import multiprocessing as mp
    idxs = registry.select(only=["_find_nth[forward,mask=None]", "_combine_factorizations", "_build_group_sorted_indexer_numba"])
    with mp.get_context("spawn").Pool(2) as pool:
        for i in idxs:
            a, b = pool.map(_gen_hash, [(i, mods), (i, mods)], chunksize=1)
            print(f"determinism {a[0]}: {'ok' if a[1] == b[1] else 'DIFFERS'}")
            if a[1] != b[1]: fails.append(f"generation not deterministic for {a[0]}")
    os.makedirs(os.path.join(ROOT, "work"), exist_ok=True)
    json.dump({"mutants": rows, "failures": fails}, open(os.path.join(ROOT, "work", "selftest.json"), "w"), indent=1)
    killed = sum(1 for r in rows if r["status"] == "killed")
    print(f"SELFTEST: {killed}/{len([r for r in rows if r['status'] != 'skipped'])} mutants killed; failures: {fails}")
    return 3 if fails else 0


if __name__ == "__main__":
    sys.exit(main())
