#!/usr/bin/env python3
"""Regenerate MANIFEST.json from the metadata of the props modules (run from /verif with /venv/bin/python or any python3: only ast is used)."""
import ast, json, os, sys
ROOT = os.path.dirname(os.path.dirname(os.path.abspath(__file__)))
ALL = [f"C{i:02d}" for i in range(1, 21)]


def consts(path):
    out = {}
    for n in ast.parse(open(path).read()).body:
        if isinstance(n, ast.Assign):
            try: v = ast.literal_eval(n.value)
            except Exception: continue
            for t in n.targets:
                if isinstance(t, ast.Tuple) and isinstance(v, tuple):
                    for tt, vv in zip(t.elts, v): out[tt.id] = vv
                elif isinstance(t, ast.Name): out[t.id] = v
    return out


_DED = ("contract-based deductive verification: sidecar pre/postconditions, loop invariants, frame clauses and ghost state on the real numba kernels the property depends on; "
        "verification conditions generated from the repository source on every run (PyVC) and discharged by z3 / cvc5, specification lemmas by induction; a failed obligation is "
        "searched for a concrete input with the same engine and replayed on the real compiled function")
_BND = "the pandas / polars / pyarrow glue around them under run-time contracts on the real functions over a stated bound (the bounded stand-in: labelled bounded, never counted as proved)"
TECH = {
    "C04": _DED + "; finite enumeration of the accumulator-dtype table; dispatch: " + _BND,
    "C07": "bounded only: run-time contracts (pre/post/old, written from the statement) on the real public methods over a bounded-exhaustive input space - the property lives in pandas/polars glue (fancy indexing, container restoration) outside the deductive verifier's reach; no obligation is counted as proved",
    "C11": "bounded only: run-time contracts on the real public methods over a bounded-exhaustive input space (labelling, ordering and shape are decided by pandas index glue outside the deductive verifier's reach); nothing counted as proved",
    "C13": "bounded run-time contracts comparing every call in bounded operation histories on one GroupBy object with the same call on a fresh object (object state, caches and pyarrow re-chunking are outside the deductive verifier's reach); deductive part (PyVC, z3/cvc5): the count cache - GroupBy.count_ikey over chunk-local codes and pointer tables, and _find_first_chunk_in_slice - is proved to be a function of the logical codes and the mask alone, against ASSUMED contracts of its two glue callees (listed in the evidence)",
    "C14": "bounded only: run-time contracts on the real margins / crosstab methods against the aggregation they summarise over a bounded-exhaustive input space (pandas MultiIndex glue, outside the deductive verifier's reach); nothing counted as proved",
    "C16": "deductive part: the sum / sum-of-squares / count kernels and the variance identity (lemmas L-var, L-welford) by PyVC + z3/cvc5; medians, quantiles, apply and the composite helpers: " + _BND,
    "C17": "structural obligations on the AST of the facade (symbolic execution of every delegating method with the core methods uninterpreted: decided for all inputs, about program text) + " + _BND,
    "C18": "structural obligations on every use of the alignment decorator (AST, all inputs) + the positions contract of _group_by_reduce (deductive, PyVC) + " + _BND,
}


def main():
    checks, na = [], []
    reasons = json.load(open(os.path.join(ROOT, "tools", "not_applicable.json"))) if os.path.exists(os.path.join(ROOT, "tools", "not_applicable.json")) else {}
    for p in ALL:
        path = os.path.join(ROOT, "props", p.lower() + ".py")
        if not os.path.exists(path):
            na.append({"property_id": p, "reason": reasons.get(p, "no check built yet in this revision (see DESIGN.md section 12 build order)")}); continue
        c = consts(path)
        checks.append({"property_id": p, "quick_cmd": f"./check {p} --tier quick", "thorough_cmd": f"./check {p} --tier thorough", "evidence_file": f"/verif/evidence/{p}.json",
                       "replay_cmd_template": f"./check {p} --replay {{path}}", "engine": "pyvc+rtc" if c.get("P_TIER", True) else "rtc",
                       "level_claimed": {"category": c["LEVEL"], "text": c.get("LEVEL_TEXT", c.get("EXPLANATION", "")), "design_ref": f"DESIGN.md section 6, {p}"},
                       "level_note": c.get("LEVEL_NOTE", "; ".join(c.get("ASSUMPTIONS", []))[:1500]),
                       "technique": c.get("TECHNIQUE", TECH.get(p, _DED + "; " + _BND))})
    man = {"version": 1, "setup_cmd": "./setup.sh",
           "hooks": {"guard": "GROUPBY_LIB_VERIF", "enable": "no source hook is needed: checks import /repo's working tree as it is (editable install) and attach sidecar contracts from outside; GROUPBY_LIB_VERIF=1 is exported by the harness but read by nothing in /repo. Size-dependent strategies are reached at small sizes from the harness, for the duration of one case, by setting the module global core.THRESHOLD_FOR_CHUNKED_FACTORIZE, by overriding the read-only property GroupBy._max_threads_for_numba, by passing n_threads= to the array-level functions and by forcing the completion order of the tasks handed to util.parallel_map (plus real-size cases of 1e6 rows)",
                     "baseline_off_cmd": "cd /repo && /venv/bin/python -m pytest -ra -q -p no:cacheprovider --timeout=900 --continue-on-collection-errors", "source_commits": [], "add_only": True},
           "engines": [{"name": "pyvc", "path": "/verif/pyvc", "serves_properties": [c["property_id"] for c in checks if c["engine"].startswith("pyvc")],
                        "kind_free_text": "own verification-condition generator: ast of the real kernels (numba nopython semantics) + sidecar contracts -> SMT-LIB, discharged by z3 5.1 and cvc5 1.0.3; L lemmas by manual induction"},
                       {"name": "rtc", "path": "/verif/rtc", "serves_properties": [c["property_id"] for c in checks],
                        "kind_free_text": "run-time contracts (pre/post/old/frame) on the real glue functions via sidecar wrappers, driven bounded-exhaustively; the bounded stand-in, never counted as proved"}],
           "checks": checks, "not_applicable": na,
           "notes": "See DESIGN.md. Exit codes of ./check: 0 held / 1 violation / 2 undecided / 3 checker fault. known_findings.json lists genuine defects recorded (known) or repaired by fix: commits (fixed)."}
    json.dump(man, open(os.path.join(ROOT, "MANIFEST.json"), "w"), indent=1)
    print(f"MANIFEST.json: {len(checks)} checks, {len(na)} not_applicable")


if __name__ == "__main__":
    main()
