#!/usr/bin/env python3
"""False-alarm measurement: run the checks against HARMLESS, behaviour-preserving edits kept under /verif/benign/<id>/ (patch.diff + meta.json, produced by independent
sub-agents that saw nothing of /verif). For every patch a scratch worktree of /repo's HEAD is created outside /repo and /verif, the patch applied, and the quick check of every
property served by a contract on the edited file (deductive + structural tiers; the bounded tier as well with --bounded) is run against that tree; a check that exits 1 or prints a
VIOLATION line on such a tree is a FALSE ALARM. NOTE lines (contract stale -> not proved on this tree, new undecided obligations) are allowed and counted.
usage: tools/run_benign.py [id ...] [--bounded]        results -> benign/RESULTS.json"""
import sys, os, json, subprocess, tempfile, shutil, re, time
ROOT = os.path.dirname(os.path.dirname(os.path.abspath(__file__)))
def run(cmd, **kw): return subprocess.run(cmd, capture_output=True, text=True, **kw)

def props_for(files, text=""):
    """properties served by a contract on a function the patch touches (function names taken from the hunk headers and from meta.json); all records of the file when none matches"""
    code = ("import sys, json; sys.path.insert(0, %r); import importlib; importlib.import_module('contracts.kernels'); from pyvc.registry import RECORDS; "
            "recs = [r for r in RECORDS if r['file'] in %r]; hit = [r for r in recs if r['qualname'].split('.')[-1].split('#')[0] in %r]; "
            "print(json.dumps(sorted({p for r in (hit or recs) for p in r['props']})))") % (ROOT, list(files), text)
    out = run(["python3-vt", "-c", code], cwd=ROOT).stdout.strip().splitlines()
    return json.loads(out[-1]) if out else []

def main():
    args = [a for a in sys.argv[1:] if not a.startswith("--")]; bounded = "--bounded" in sys.argv
    bdir = os.path.join(ROOT, "benign"); ids = args or sorted(d for d in os.listdir(bdir) if os.path.isdir(os.path.join(bdir, d)))
    rp = os.path.join(bdir, "RESULTS.json"); results = json.load(open(rp)) if os.path.exists(rp) else {}
    for bid in ids:
        d = os.path.join(bdir, bid); patch = open(os.path.join(d, "patch.diff")).read()
        files = sorted(set(re.findall(r"^\+\+\+ b/(\S+)", patch, re.M)))
        meta = json.load(open(os.path.join(d, "meta.json"))) if os.path.exists(os.path.join(d, "meta.json")) else {}
        props = props_for(files, " ".join(re.findall(r"^@@.*@@(.*)$", patch, re.M)) + " " + str(meta.get("function", "")) + " " + " ".join(re.findall(r"^[-+ ]\s*def (\w+)", patch, re.M)))
        if any(f.endswith("api.py") for f in files): props = sorted(set(props) | {"C17"})
        if any(f.endswith("core.py") for f in files): props = sorted(set(props) | {"C18", "C13"})
        wt = tempfile.mkdtemp(prefix=f"benign_{bid}_"); os.rmdir(wt)
        if run(["git", "-C", "/repo", "worktree", "add", "--detach", wt, "HEAD"]).returncode: print(bid, "worktree failed"); continue
        try:
            ap = run(["git", "-C", wt, "apply", os.path.join(d, "patch.diff")])
            if ap.returncode: results[bid] = {"status": "patch does not apply", "detail": ap.stderr[-300:]}; print(bid, "PATCH DOES NOT APPLY"); continue
            env = dict(os.environ, VERIF_REPO=wt, PYTHONPATH=wt, VERIF_SEED="5", VERIF_SKIP_CEX="1")
            if not bounded: env["VERIF_SKIP_B"] = "1"
            rows = {}
            for prop in props:
                t = time.time(); c = run([os.path.join(ROOT, "check"), prop, "--tier", "quick"], cwd=ROOT, env=env)
                rows[prop] = {"exit": c.returncode, "violations": [re.sub(r"replay=\S+ ", "", l)[:240] for l in c.stdout.splitlines() if l.startswith("VIOLATION")][:5],
                              "notes": [l[:240] for l in c.stdout.splitlines() if l.startswith("NOTE")][:4], "faults": [l[:240] for l in c.stderr.splitlines() if l.startswith("CHECKER FAULT")][:3],
                              "summary": (c.stdout.strip().splitlines() or [""])[-1][:200], "wall_s": round(time.time() - t, 1)}
            alarms = sorted(p for p, r in rows.items() if r["exit"] == 1 or r["violations"])
            results[bid] = {"files": files, "checks": rows, "false_alarms": alarms, "faults": sorted(p for p, r in rows.items() if r["exit"] == 3), "bounded_tier_run": bounded}
            print(f"{bid:40s} checks={props} false_alarms={alarms} notes={sum(len(r['notes']) for r in rows.values())} faults={results[bid]['faults']}", flush=True)
        finally:
            run(["git", "-C", "/repo", "worktree", "remove", "--force", wt]); shutil.rmtree(wt, ignore_errors=True)
            json.dump(results, open(rp, "w"), indent=1)
    bad = [b for b, v in results.items() if v.get("false_alarms")]
    print(f"benign edits: {len(results)}; with a false alarm: {bad}")

if __name__ == "__main__": main()
