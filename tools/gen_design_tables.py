#!/usr/bin/env python3
"""Regenerate the generated parts of DESIGN.md (between <!-- X:BEGIN --> / <!-- X:END --> markers): the known-findings list (from known_findings.json)
and the seeded-change table (from seeded/*/meta.json and seeded/RESULTS.json)."""
import json, os, re
ROOT = os.path.dirname(os.path.dirname(os.path.abspath(__file__)))
def put(s, tag, body): return re.sub(rf"<!-- {tag}:BEGIN -->.*?<!-- {tag}:END -->", lambda m: f"<!-- {tag}:BEGIN -->\n{body}\n<!-- {tag}:END -->", s, flags=re.S)
s = open(os.path.join(ROOT, "DESIGN.md")).read()
k = json.load(open(os.path.join(ROOT, "known_findings.json")))
lines = []
for e in k:
    if e["status"] != "known": continue
    tier = f"P: obligation `{e['obligation']}`" if e.get("tier") == "P" else "B"
    lines.append(f"* **{e['property']}** ({tier}) — {e['what']}")
s = put(s, "KNOWN", "\n".join(lines))
res = json.load(open(os.path.join(ROOT, "seeded", "RESULTS.json"))) if os.path.exists(os.path.join(ROOT, "seeded", "RESULTS.json")) else {}
rows = ["| seeded change | property | what it changes (needs, to manifest) | caught by | first failing obligation / contract |", "|---|---|---|---|---|"]
for sid in sorted(d for d in os.listdir(os.path.join(ROOT, "seeded")) if os.path.isdir(os.path.join(ROOT, "seeded", d))):
    m = json.load(open(os.path.join(ROOT, "seeded", sid, "meta.json"))); r = res.get(sid, {})
    first = ""
    for p, c in r.get("checks", {}).items():
        if c.get("first"):
            f = c["first"][0]; f = re.sub(r"^VIOLATION property=\S+ ", "", f); first = f[:150].replace("|", "/"); break
    tiers = set()
    for p, c in r.get("checks", {}).items():
        for f in c.get("first", []):
            tiers.add("P" if "obligation=" in f and "::" in f and ".py::" in f and "api.py" not in f else ("S" if "obligation=" in f else "B"))
    caught = ", ".join(r.get("caught_by", [])) + (f" ({'+'.join(sorted(tiers))})" if tiers else "") if r.get("caught_by") else ("MISSED" if r else "not run")
    what = (m.get("summary", "")[:170] + " — needs: " + m.get("needs_to_manifest", "")[:150]).replace("|", "/").replace("\n", " ")
    rows.append(f"| `{sid}` | {m['property']} | {what} | {caught} | {first} |")
n = len(rows) - 2; c = sum(1 for sid, r in res.items() if r.get("caught_by"))
rows.append(""); rows.append(f"{n} seeded changes kept; {c} caught by the quick check of the property they break (tier in brackets: P = a proved obligation now fails, S = structural obligation, B = bounded run-time contract).")
s = put(s, "SEEDED", "\n".join(rows))
# harmless edits (false-alarm measurement)
bp = os.path.join(ROOT, "benign", "RESULTS.json")
if os.path.exists(bp) and "<!-- BENIGN:BEGIN -->" in s:
    br = json.load(open(bp)); brow = ["| harmless edit | function | kind of edit | checks run (quick; deductive + structural tiers" + ("" if not any(v.get("bounded_tier_run") for v in br.values()) else ", some with the bounded tier") + ") | contract still applies? | false alarm |", "|---|---|---|---|---|---|"]
    for bid in sorted(br):
        v = br[bid]; mp = os.path.join(ROOT, "benign", bid, "meta.json"); m = json.load(open(mp)) if os.path.exists(mp) else {}
        notes = sum(len(c.get("notes", [])) for c in v.get("checks", {}).values())
        brow.append(f"| `{bid}` | {str(m.get('function', ''))[:60].replace('|', '/')} | {str(m.get('kind_of_refactor', ''))[:80].replace('|', '/')} | {', '.join(v.get('checks', {}))} | {'re-proved on the edited source' if not notes else 'stale for the edited function(s): announced (NOTE), not proved on that tree'} | {', '.join(v.get('false_alarms', [])) or 'none'} |")
    brow += ["", f"{len(br)} harmless edits; {sum(1 for v in br.values() if v.get('false_alarms'))} with a false alarm; {sum(1 for v in br.values() if v.get('faults'))} with a checker fault."]
    s = put(s, "BENIGN", "\n".join(brow))
open(os.path.join(ROOT, "DESIGN.md"), "w").write(s); print("DESIGN.md tables regenerated:", len(lines), "known,", n, "seeded")
