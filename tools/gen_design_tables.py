#!/usr/bin/env python3
"""Regenerate the generated parts of DESIGN.md (between <!-- X:BEGIN --> / <!-- X:END --> markers): the known-findings list (from known_findings.json)
and the seeded-change table (from seeded/*/meta.json and seeded/RESULTS.json)."""
import json, os, re
ROOT = os.path.dirname(os.path.dirname(os.path.abspath(__file__)))
def put(s, tag, body): return re.sub(rf"<!-- {tag}:BEGIN -->.*?<!-- {tag}:END -->", lambda m: f"<!-- {tag}:BEGIN -->\n{body}\n<!-- {tag}:END -->", s, flags=re.S)
s = open(os.path.join(ROOT, "DESIGN.md")).read()
k = json.load(open(os.path.join(ROOT, "known_findings.json")))
lines = []
for e in k:
    if e["status"] != "known": continue
    tier = f"P: obligation `{e['obligation']}`" if e.get("tier") == "P" else "B"
    lines.append(f"* **{e['property']}** ({tier}) — {e['what']}")
s = put(s, "KNOWN", "\n".join(lines))
res = json.load(open(os.path.join(ROOT, "seeded", "RESULTS.json"))) if os.path.exists(os.path.join(ROOT, "seeded", "RESULTS.json")) else {}
rows = ["| seeded change | property | what it changes (needs, to manifest) | caught by | first failing obligation / contract |", "|---|---|---|---|---|"]
for sid in sorted(d for d in os.listdir(os.path.join(ROOT, "seeded")) if os.path.isdir(os.path.join(ROOT, "seeded", d))):
    m = json.load(open(os.path.join(ROOT, "seeded", sid, "meta.json"))); r = res.get(sid, {})
    first = ""
    for p, c in r.get("checks", {}).items():
        if c.get("first"):
            f = c["first"][0]; f = re.sub(r"^VIOLATION property=\S+ ", "", f); first = f[:150].replace("|", "/"); break
    tiers = set()
    for p, c in r.get("checks", {}).items():
        for f in c.get("first", []):
            tiers.add("P" if "obligation=" in f and "::" in f and ".py::" in f and "api.py" not in f else ("S" if "obligation=" in f else "B"))
    caught = ", ".join(r.get("caught_by", [])) + (f" ({'+'.join(sorted(tiers))})" if tiers else "") if r.get("caught_by") else ("MISSED" if r else "not run")
    what = (m.get("summary", "")[:170] + " — needs: " + m.get("needs_to_manifest", "")[:150]).replace("|", "/").replace("\n", " ")
    rows.append(f"| `{sid}` | {m['property']} | {what} | {caught} | {first} |")
n = len(rows) - 2; c = sum(1 for sid, r in res.items() if r.get("caught_by"))
rows.append(""); rows.append(f"{n} seeded changes kept; {c} caught by the quick check of the property they break (tier in brackets: P = a proved obligation now fails, S = structural obligation, B = bounded run-time contract).")
s = put(s, "SEEDED", "\n".join(rows))
# round-3 measurements: numbers read from the files the tools wrote (work/ is untracked, so the section is only rewritten when those files exist)
def _load(path):
    try: return json.load(open(os.path.join(ROOT, path)))
    except Exception: return None
st, cx, xc, bl = _load("work/selftest.json"), _load("work/cex_selftest.json"), _load("work/xcheck_all.json"), _load("baseline/pyvc.json")
if "<!-- R3NUM:BEGIN -->" in s and (st or cx or xc or bl):
    out = []
    if bl: out.append(f"* **Obligations** (`./check baseline`, thorough tier, both solvers): {len(bl['discharged'])} obligations from the real source discharged, {len(bl.get('failed_stems', []))} stem(s) not discharged (the recorded known finding: {', '.join(bl.get('failed_stems', [])) or '-'}); {len(bl['functions'])} function instantiations.")
    if st:
        ms = st["mutants"]; k = sum(1 for m in ms if m["status"] == "killed"); d = [m["mutant"] for m in ms if m["status"] == "demoted"]; sv = [m["mutant"] for m in ms if m["status"] == "SURVIVED"]
        out.append(f"* **Mutant self-test** (`./check selftest`, part 1): {len([m for m in ms if m['status'] != 'skipped'])} semantic mutants of the functions under contract; {k} fail a named obligation, {len(d)} make the contract inapplicable (construct outside the subset -> decided by the bounded tier: {', '.join(d) or '-'}), {len(sv)} survive ({', '.join(sv) or 'none'}).")
    if cx:
        ms = {k: v for k, v in cx.items() if k != "unchanged"}; c = {}
        for v in ms.values(): c[v["status"]] = c.get(v["status"], 0) + 1
        un = cx.get("unchanged", {})
        out.append(f"* **Counterexample search** (`tools/cex_selftest.py`, part 2): of {len(ms)} mutants, {c.get('confirmed', 0)} get a verifier counterexample CONFIRMED on the mutated compiled function (reality == prediction, obligation fails for every admissible specification interpretation), "
                   f"{c.get('candidate-not-confirmed', 0)} only an unconfirmed candidate (not reported), {c.get('none', 0)} none within the bound (16-bit counter overflow at 2^15 rows, out-of-bounds accesses, dtype-only changes, larger windows), {c.get('not-runnable', 0)} are mutants of object methods / extracted loops, which have no stand-alone native call (their failing obligation is reported with the bounded tier's input or `no-failing-input-found`). "
                   f"On the unchanged tree: {un.get('statuses')}; confirmed only for the recorded known finding ({', '.join(x.split('::')[-1] for x in un.get('confirmed_for_a_recorded_known_finding', [])) or '-'}); confirmed elsewhere: {un.get('confirmed_on_unchanged_tree') or 'none'}.")
    if xc:
        out.append(f"* **Encoding cross-check** (`pyvc.cex --xcheck`, part 3): {sum(r.get('agree', 0) for r in xc)} paths of the bounded execution executed natively agree with the engine's prediction, {sum(len(r.get('disagree', [])) for r in xc)} disagree, over {sum(1 for r in xc if r.get('paths_executed'))} function instantiations ({sum(1 for r in xc if r.get('status') == 'not-runnable')} not runnable stand-alone: object methods, nested overload bodies).")
    s = put(s, "R3NUM", "\n".join(out))
# harmless edits (false-alarm measurement)
bp = os.path.join(ROOT, "benign", "RESULTS.json")
if os.path.exists(bp) and "<!-- BENIGN:BEGIN -->" in s:
    br = json.load(open(bp)); brow = ["| harmless edit | function | kind of edit | checks run (quick; deductive + structural tiers" + ("" if not any(v.get("bounded_tier_run") for v in br.values()) else ", some with the bounded tier") + ") | contract still applies? | false alarm |", "|---|---|---|---|---|---|"]
    for bid in sorted(br):
        v = br[bid]; mp = os.path.join(ROOT, "benign", bid, "meta.json"); m = json.load(open(mp)) if os.path.exists(mp) else {}
        notes = sum(len(c.get("notes", [])) for c in v.get("checks", {}).values())
        brow.append(f"| `{bid}` | {str(m.get('function', ''))[:60].replace('|', '/')} | {str(m.get('kind_of_refactor', ''))[:80].replace('|', '/')} | {', '.join(v.get('checks', {}))} | {'re-proved on the edited source' if not notes else 'stale for the edited function(s): announced (NOTE), not proved on that tree'} | {', '.join(v.get('false_alarms', [])) or 'none'} |")
    brow += ["", f"{len(br)} harmless edits; {sum(1 for v in br.values() if v.get('false_alarms'))} with a false alarm; {sum(1 for v in br.values() if v.get('faults'))} with a checker fault."]
    s = put(s, "BENIGN", "\n".join(brow))
open(os.path.join(ROOT, "DESIGN.md"), "w").write(s); print("DESIGN.md tables regenerated:", len(lines), "known,", n, "seeded")
