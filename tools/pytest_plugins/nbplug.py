"""pytest plugin (-p nbplug): private numba cache dir per xdist worker + tolerant cache writes (see DESIGN section 4, harness hygiene)."""
import os
w = os.environ.get("PYTEST_XDIST_WORKER", "main")
os.environ["NUMBA_CACHE_DIR"] = os.path.join(os.environ.get("VERIF_SUITE_CACHE", "/verif/.cache/suite"), w)
os.makedirs(os.environ["NUMBA_CACHE_DIR"], exist_ok=True)
import numba.core.caching as _c
_o = _c.Cache.save_overload
def _s(self, sig, data):
    try: _o(self, sig, data)
    except Exception: pass
_c.Cache.save_overload = _s
