#!/usr/bin/env python3
"""Run the checks against the seeded property-breaking changes kept under /verif/seeded/<id>/.

For every seeded change: a scratch worktree of /repo's HEAD is created OUTSIDE /repo and /verif, the patch is applied there, the quick check of the
property the change breaks (plus any further checks named in meta.json "also_checks") is run with VERIF_REPO pointing at the scratch tree (the harness puts
it first on sys.path; PyVC reads its sources), and the worktree is removed again. /repo itself is never modified.

usage: tools/run_seeded.py [id ...] [--tier quick|thorough] [--budget s] [--all-checks]      results -> seeded/RESULTS.json (+ table on stdout)
"""
import sys, os, json, subprocess, tempfile, shutil, time, argparse, re

ROOT = os.path.dirname(os.path.dirname(os.path.abspath(__file__)))
ALL = [f"C{i:02d}" for i in range(1, 21)]


def run(cmd, **kw): return subprocess.run(cmd, capture_output=True, text=True, **kw)


def main():
    ap = argparse.ArgumentParser(); ap.add_argument("ids", nargs="*"); ap.add_argument("--tier", default="quick"); ap.add_argument("--budget", type=float)
    ap.add_argument("--all-checks", action="store_true"); a = ap.parse_args()
    sdir = os.path.join(ROOT, "seeded"); ids = a.ids or sorted(d for d in os.listdir(sdir) if os.path.isdir(os.path.join(sdir, d)))
    results = {}
    if os.path.exists(os.path.join(sdir, "RESULTS.json")): results = json.load(open(os.path.join(sdir, "RESULTS.json")))
    for sid in ids:
        d = os.path.join(sdir, sid); meta = json.load(open(os.path.join(d, "meta.json")))
        wt = tempfile.mkdtemp(prefix=f"seeded_{sid}_"); os.rmdir(wt)
        r = run(["git", "-C", "/repo", "worktree", "add", "--detach", wt, "HEAD"])
        if r.returncode: print(sid, "worktree failed", r.stderr); continue
        try:
            r = run(["git", "-C", wt, "apply", os.path.join(d, "patch.diff")])
            if r.returncode:
                results[sid] = {"property": meta["property"], "status": "patch does not apply to the current HEAD", "detail": r.stderr[-300:]}; print(sid, "PATCH DOES NOT APPLY"); continue
            env = dict(os.environ, VERIF_REPO=wt, PYTHONPATH=wt, NUMBA_CACHE_DIR=os.path.join(ROOT, ".cache", "numba", "seeded_demo"))
            demo = run(["/venv/bin/python", os.path.join(d, "demo.py")], cwd=wt, env=env, timeout=1800)
            checks = ALL if a.all_checks else [meta["property"]] + list(meta.get("also_checks", []))
            caught = {}
            for prop in checks:
                t = time.time()
                cmd = [os.path.join(ROOT, "check"), prop, "--tier", a.tier] + (["--budget", str(a.budget)] if a.budget else [])
                c = run(cmd, cwd=ROOT, env=dict(env, VERIF_SEED="3"))
                lines = [l for l in c.stdout.splitlines() if l.startswith("VIOLATION")]
                caught[prop] = {"exit": c.returncode, "violations": len(lines), "first": [re.sub(r"replay=\S+ ", "", l)[:260] for l in lines[:4]], "wall_s": round(time.time() - t, 1),
                                "summary": (c.stdout.strip().splitlines() or [""])[-1][:200]}
            results[sid] = {"property": meta["property"], "demo_exit_with_patch": demo.returncode, "demo_says": (demo.stdout.strip().splitlines() or [""])[-1][:200],
                            "checks": caught, "caught_by": sorted(p for p, v in caught.items() if v["exit"] == 1), "tier": a.tier}
            print(f"{sid:28s} {meta['property']}  demo={demo.returncode}  caught_by={results[sid]['caught_by']}  " + " | ".join(f"{p}:{v['violations']}" for p, v in caught.items()))
        finally:
            run(["git", "-C", "/repo", "worktree", "remove", "--force", wt]); shutil.rmtree(wt, ignore_errors=True)
            json.dump(results, open(os.path.join(sdir, "RESULTS.json"), "w"), indent=1)
    missed = [s for s, v in results.items() if not v.get("caught_by")]
    print(f"seeded changes: {len(results)}; caught: {len(results) - len(missed)}; missed: {missed}")


if __name__ == "__main__":
    main()
