#!/venv/bin/python
"""Run the repository's suite (guard off, 8 xdist workers with private numba caches) and compare with /root/.vp/BASELINE.json stable_pass.
usage: tools/run_baseline.py [repo_dir [junit_file]]"""
import json, os, subprocess, sys, xml.etree.ElementTree as ET
repo = sys.argv[1] if len(sys.argv) > 1 else "/repo"
out = sys.argv[2] if len(sys.argv) > 2 else "/verif/work/suite.junit.xml"; os.makedirs("/verif/work", exist_ok=True)
env = dict(os.environ); env["PYTHONPATH"] = "/verif/tools/pytest_plugins"; env.pop("GROUPBY_LIB_VERIF", None)
p = subprocess.run(["/venv/bin/python", "-m", "pytest", "-q", "-p", "no:cacheprovider", "-p", "nbplug", "--timeout=900", "--continue-on-collection-errors", "-n", "8", f"--junitxml={out}", "-x" if False else "-q"],
                   cwd=repo, env=env, capture_output=True, text=True)
print(p.stdout[-600:])
base = json.load(open("/root/.vp/BASELINE.json")); stable = set(base["stable_pass"])
passed = set(); failed = set()
for tc in ET.parse(out).getroot().iter("testcase"):
    name = f"{tc.get('classname')}::{tc.get('name')}"
    bad = any(ch.tag in ("failure", "error") for ch in tc); skipped = any(ch.tag == "skipped" for ch in tc)
    (failed if bad else passed).add(name) if not skipped else None
lost = sorted(stable - passed)
print(f"stable_pass {len(stable)}; passed now {len(passed)}; failed now {len(failed)}; stable tests not passing now: {len(lost)}")
for n in lost[:30]: print("  LOST", n)
print("newly passing (not in stable_pass):", len(passed - stable))
sys.exit(1 if lost else 0)
