#!/venv/bin/python
"""Run ONE real function of the repository on ONE concrete input and report what it did (used by pyvc/cex.py to replay a verifier counterexample natively).

stdin / argv[1]: JSON {"repo": dir, "file": "groupby_lib/groupby/numba.py", "qualname": "ScalarFuncs.nanmin", "args": [{"name", "type", "value"}, ...]}
stdout: JSON {"raised": null | "AssertionError: ...", "returns": <encoded>, "args_after": {name: <encoded>}}
Types (the instantiation strings of contracts/kernels.py): int | float | bool | none | const:<v> | arr:<elem>:<dtype> | arr2:<elem>:<dtype> | chunks:<elem>:<dtype>
Encoding: float NaN -> "nan", +-inf -> "inf"/"-inf"; arrays -> nested lists; tuples -> {"tuple": [...]}.
The function is the compiled (jitted) object the library itself calls - numba semantics, not CPython's."""
import sys, os, json, importlib, math


def dec_scalar(v, elem):
    if elem == "float": return float(v) if not isinstance(v, str) else float(v)
    if elem == "bool": return bool(v)
    return int(v)


def enc(x):
    import numpy as np
    if x is None: return None
    if isinstance(x, tuple): return {"tuple": [enc(y) for y in x]}
    if isinstance(x, np.ndarray):
        if x.dtype.kind in "mM": x = x.view("int64")
        return {"array": [enc(y) for y in x.tolist()] if x.ndim == 1 else [[enc(z) for z in row] for row in x.tolist()], "dtype": str(x.dtype)}
    if isinstance(x, (bool, np.bool_)): return bool(x)
    if isinstance(x, (int, np.integer)): return int(x)
    if isinstance(x, (float, np.floating)):
        x = float(x)
        return "nan" if math.isnan(x) else ("inf" if x == math.inf else ("-inf" if x == -math.inf else x))
    if isinstance(x, list): return {"list": [enc(y) for y in x]}
    try: return {"list": [enc(y) for y in x]}          # numba typed list
    except TypeError: return repr(x)


def main():
    job = json.load(open(sys.argv[1])) if len(sys.argv) > 1 else json.load(sys.stdin)
    sys.path.insert(0, job["repo"])
    import warnings; warnings.filterwarnings("ignore")
    import numpy as np
    from numba.typed import List as NumbaList
    mod = importlib.import_module(job["file"][:-3].replace("/", "."))
    obj = mod
    for part in job["qualname"].split("."): obj = getattr(obj, part)
    args = []; names = []
    for a in job["args"]:
        t, v = a["type"], a["value"]; names.append(a["name"])
        if t == "none": args.append(None)
        elif t in ("int", "float", "bool"): args.append(dec_scalar(v, t))
        elif t.startswith("const:"):
            c = t.split(":")[1]; args.append(c == "True" if c in ("True", "False") else int(c))
        elif t.startswith("arr:") or t.startswith("arr2:"):
            _, elem, dtype = t.split(":")[:3]
            args.append(np.array([dec_scalar(x, elem) for x in v] if t.startswith("arr:") else [[dec_scalar(x, elem) for x in row] for row in v], dtype=dtype).reshape((len(v),) if t.startswith("arr:") else (len(v), len(v[0]) if v else 0)))
        elif t.startswith("func:"):
            _, m_, q_ = t.split(":"); o_ = importlib.import_module(m_)
            for part in q_.split("."): o_ = getattr(o_, part)
            args.append(o_)
        elif t.startswith("str:"): args.append(t.split(":", 1)[1])
        elif t.startswith("list:"):
            _, elem, dtype = t.split(":")[:3]; args.append([np.array([dec_scalar(x, elem) for x in ch], dtype=dtype) for ch in v])
        elif t.startswith("chunks:"):
            _, elem, dtype = t.split(":")[:3]
            import numba
            lst = NumbaList.empty_list(numba.types.Array(numba.from_dtype(np.dtype(dtype)), 1, "C"))      # typed even when empty
            for ch in v: lst.append(np.array([dec_scalar(x, elem) for x in ch], dtype=dtype))
            args.append(lst)
        else: raise SystemExit(f"unsupported type {t}")
    out = {"raised": None, "returns": None}
    try: out["returns"] = enc(obj(*args))
    except BaseException as ex: out["raised"] = f"{type(ex).__name__}: {str(ex)[:200]}"
    out["args_after"] = {n: enc(a) for n, a in zip(names, args) if isinstance(a, (np.ndarray, NumbaList, list))}
    print(json.dumps(out))


if __name__ == "__main__":
    main()
