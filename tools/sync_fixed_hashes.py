#!/usr/bin/env python3
"""Re-synchronise the commit hashes of the `fixed` entries of known_findings.json with /repo's history (entries are kept in commit order)."""
import json, subprocess, re
p = "/verif/known_findings.json"; k = json.load(open(p))
log = [l.split("|", 1) for l in subprocess.run(["git", "-C", "/repo", "log", "--reverse", "--format=%h|%s", "be63ad5..HEAD"], capture_output=True, text=True).stdout.strip().splitlines()]
fixed = [e for e in k if e["status"] == "fixed"]
assert len(fixed) == len(log), (len(fixed), len(log))
for e, (h, subj) in zip(fixed, log):
    e["what"] = re.sub(r"^(fixed: property=C\d+ )[0-9a-f]{7,} ", r"\g<1>" + h + " ", e["what"]); e["commit"] = h; e["subject"] = subj
json.dump(k, open(p, "w"), indent=1); print("synced", len(fixed))
