#!/usr/bin/env python3
"""Self-test of the counterexample search (pyvc/cex.py): for every kernel mutant of pyvc_selftest.MUTANTS (applied to a scratch copy of /repo's sources outside /repo and /verif,
removed afterwards) search for a concrete input with the verification engine and replay it on the mutated compiled function. Reports how many mutants get a CONFIRMED
counterexample (reality == prediction and the contract fails on it), and for the unchanged tree that NO function gets one (a confirmed counterexample on the unchanged tree
would be a defect or an unsound search).      usage: python3-vt tools/cex_selftest.py [--budget s] [mutant ...]      -> work/cex_selftest.json"""
import sys, os, shutil, subprocess, json, tempfile, collections
ROOT = os.path.dirname(os.path.dirname(os.path.abspath(__file__))); sys.path.insert(0, ROOT)
import pyvc_selftest as st

def main():
    args = sys.argv[1:]; budget = "90"
    if "--budget" in args: i = args.index("--budget"); budget = args[i + 1]; del args[i:i + 2]
    rows = {}; tmp = tempfile.mkdtemp(prefix="cex_selftest_")
    try:
        if not args or "unchanged" in args:
            out = os.path.join(tmp, "u.json")
            subprocess.run(["python3-vt", "-m", "pyvc.cex", "--repo", st.REPO, "--budget", "40", "--procs", "16", "--json", out], capture_output=True, text=True, cwd=ROOT)
            reps = json.load(open(out)); c = collections.Counter(r["status"] for r in reps)
            known = [e["obligation"] for e in json.load(open(os.path.join(ROOT, "known_findings.json"))) if e.get("status") == "known" and e.get("tier") == "P"]
            known_fns = [k.split("::")[1].replace("\\", "") for k in known if k.count("::") >= 2]       # 'file\.py::function\[inst\]::kind...' -> 'function[inst]'
            def is_known(r): return any(f in r["function"] for f in known_fns)
            rows["unchanged"] = {"statuses": dict(c), "confirmed_for_a_recorded_known_finding": [r["function"] for r in reps if r["status"] == "confirmed" and is_known(r)],
                                 "confirmed_on_unchanged_tree": [r["function"] for r in reps if r["status"] == "confirmed" and not is_known(r)],
                                 "candidates_not_confirmed": [r["function"] for r in reps if r["status"] == "candidate-not-confirmed"]}
            print("unchanged tree:", dict(c), "confirmed:", rows["unchanged"]["confirmed_on_unchanged_tree"], flush=True)
        for m in st.MUTANTS:
            mid, file, old, new, occ, func, what = m
            if old is None or (args and mid not in args): continue
            dest = os.path.join(tmp, "tree"); shutil.rmtree(dest, ignore_errors=True); os.makedirs(dest)
            shutil.copytree(os.path.join(st.REPO, "groupby_lib"), os.path.join(dest, "groupby_lib"), ignore=shutil.ignore_patterns("__pycache__", "*.nbi", "*.nbc"))
            skip = st.apply_mutant(dest, m)
            if skip: print(mid, "SKIP", skip); continue
            out = os.path.join(tmp, f"{mid}.json")
            p = subprocess.run(["python3-vt", "-m", "pyvc.cex", "--repo", dest, "--functions", func, "--budget", budget, "--json", out], capture_output=True, text=True, cwd=ROOT)
            try: reps = json.load(open(out))
            except Exception: rows[mid] = {"status": "error", "detail": p.stderr[-400:]}; print(mid, "ERROR", p.stderr[-300:]); continue
            sts = [r["status"] for r in reps]
            best = "confirmed" if "confirmed" in sts else ("candidate-not-confirmed" if "candidate-not-confirmed" in sts else ("error" if "error" in sts else (sts[0] if sts else "no-record")))
            cx = next((r["counterexample"] for r in reps if r["status"] == "confirmed"), None)
            rows[mid] = {"status": best, "function": func, "what": what, "per_instantiation": [(r["function"].split("::")[-1], r["status"], r.get("tried_shapes"), r.get("wall_s")) for r in reps],
                         "counterexample_args": cx["args"] if cx else None, "violated": cx["obligation"] if cx else None}
            print(f"{mid:16s} {best:26s} {func:50s}", flush=True)
            for r in reps:
                if r["status"] == "error": print(r["error"][-500:])
    finally:
        shutil.rmtree(tmp, ignore_errors=True); shutil.rmtree(os.path.join(ROOT, ".cache", "numba", "cex"), ignore_errors=True)
    c = collections.Counter(v["status"] for k, v in rows.items() if k != "unchanged"); print("mutants:", dict(c))
    os.makedirs(os.path.join(ROOT, "work"), exist_ok=True); json.dump(rows, open(os.path.join(ROOT, "work", "cex_selftest.json"), "w"), indent=1, default=str)
    bad = rows.get("unchanged", {}).get("confirmed_on_unchanged_tree")
    return 3 if bad else 0

if __name__ == "__main__": sys.exit(main())
