#!/usr/bin/env python3
"""Confirm a seeded change myself before it is kept: in a scratch worktree of /repo's HEAD (outside /repo and /verif) the demonstration must exit 0 on the
unchanged tree and 1 with the patch, and the pinned suite (tools/run_baseline.py) must not lose a stable test with the patch (timing assertions excepted, listed).
Records what was run under "confirmed" in seeded/<id>/meta.json.          usage: tools/confirm_seed.py <id> [--no-suite]"""
import sys, os, json, subprocess, tempfile, shutil, re, time
ROOT = os.path.dirname(os.path.dirname(os.path.abspath(__file__)))
FLAKY = re.compile(r"test_multi_key_large_data|test_performance_large_data")
def run(cmd, **kw): return subprocess.run(cmd, capture_output=True, text=True, **kw)
def main():
    sid = sys.argv[1]; d = os.path.join(ROOT, "seeded", sid); meta = json.load(open(os.path.join(d, "meta.json")))
    wt = tempfile.mkdtemp(prefix=f"confirm_{sid}_"); os.rmdir(wt)
    assert run(["git", "-C", "/repo", "worktree", "add", "--detach", wt, "HEAD"]).returncode == 0
    head = run(["git", "-C", "/repo", "rev-parse", "--short", "HEAD"]).stdout.strip()
    try:
        env = dict(os.environ, PYTHONPATH=wt, NUMBA_CACHE_DIR=os.path.join(ROOT, ".cache", "numba", f"confirm_{sid}"), NUMBA_NUM_THREADS="4")
        clean = run(["/venv/bin/python", os.path.join(d, "demo.py")], cwd=wt, env=env, timeout=3600)
        ap = run(["git", "-C", wt, "apply", os.path.join(d, "patch.diff")]); assert ap.returncode == 0, ap.stderr
        pat = run(["/venv/bin/python", os.path.join(d, "demo.py")], cwd=wt, env=env, timeout=3600)
        rec = {"repo_head": head, "demo_unchanged_exit": clean.returncode, "demo_unchanged_says": (clean.stdout.strip().splitlines() or [""])[0][:300],
               "demo_patched_exit": pat.returncode, "demo_patched_says": (pat.stdout.strip().splitlines() or [""])[0][:400]}
        if "--no-suite" not in sys.argv:
            junit = os.path.join(ROOT, "work", f"confirm_{sid}.junit.xml")
            s = run(["/venv/bin/python", os.path.join(ROOT, "tools", "run_baseline.py"), wt, junit], env=dict(os.environ, VERIF_SUITE_CACHE=os.path.join(ROOT, ".cache", "numba", f"confirm_{sid}", "suite")))
            lost = re.findall(r"LOST (\S+)", s.stdout); real = [l for l in lost if not FLAKY.search(l)]
            rec.update(suite_cmd="tools/run_baseline.py <scratch tree with patch> (pinned suite, -n 8, compared with BASELINE stable_pass)", suite_lost_stable=real,
                       suite_lost_timing_assertions=[l for l in lost if FLAKY.search(l)], suite_summary=[l for l in s.stdout.splitlines() if l.startswith("stable_pass")][:1])
            if os.path.exists(junit): os.remove(junit)
        rec["ok"] = clean.returncode == 0 and pat.returncode == 1 and not rec.get("suite_lost_stable")
        meta["confirmed"] = rec; json.dump(meta, open(os.path.join(d, "meta.json"), "w"), indent=1)
        print(sid, json.dumps(rec)[:900])
    finally:
        run(["git", "-C", "/repo", "worktree", "remove", "--force", wt]); shutil.rmtree(wt, ignore_errors=True)
        shutil.rmtree(os.path.join(ROOT, ".cache", "numba", f"confirm_{sid}"), ignore_errors=True)
if __name__ == "__main__": main()
